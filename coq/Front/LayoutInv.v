(** C06 proofs, part (c): the offside parser inverts the layout printer.
    For every decorated tree whose layout choices are valid ([wf_*]), parsing the rendered token
    stream gives back the erased tree: the layout choices are not observable. *)
From Coq Require Import List Arith Bool Lia.
From FoVerif Require Import Front.Layout.
Import ListNotations.

(* ---------------------------------------------------------------- "eventually" judgements *)
Definition PE off ts e r := exists n0, forall n, n0 <= n -> p_expr n off ts = Ok (e, r).
Definition PBA off cur ts e r := exists n0, forall n, n0 <= n -> p_binafter n off cur ts = Ok (e, r).
Definition PT off ts e r := exists n0, forall n, n0 <= n -> p_term n off ts = Ok (e, r).
Definition PIF off ts e r := exists n0, forall n, n0 <= n -> p_if n off ts = Ok (e, r).
Definition PIF1 off cond ts e r := exists n0, forall n, n0 <= n -> p_if1 n off cond ts = Ok (e, r).
Definition PNL off cond te ts e r := exists n0, forall n, n0 <= n -> p_if_nl n off cond te ts = Ok (e, r).
Definition PAS off ts l r := exists n0, forall n, n0 <= n -> p_atoms n off ts = Ok (l, r).
Definition PA off ts a r := exists n0, forall n, n0 <= n -> p_atom n off ts = Ok (a, r).
Definition PCM off ts l r := exists n0, forall n, n0 <= n -> p_commas n off ts = Ok (l, r).
Definition PSM off ts l r := exists n0, forall n, n0 <= n -> p_semis n off ts = Ok (l, r).
Definition PFL off ts l r := exists n0, forall n, n0 <= n -> p_fields n off ts = Ok (l, r).
Definition PRS off ts l r := exists n0, forall n, n0 <= n -> p_rules n off ts = Ok (l, r).
Definition PRL off ts x r := exists n0, forall n, n0 <= n -> p_rule n off ts = Ok (x, r).
Definition PUR off ts l r := exists n0, forall n, n0 <= n -> p_urules n off ts = Ok (l, r).
Definition PSR off ts l r := exists n0, forall n, n0 <= n -> p_srules n off ts = Ok (l, r).
Definition PS off ts s r := exists n0, forall n, n0 <= n -> p_stmt n off ts = Ok (s, r).
Definition PB off ts b r := exists n0, forall n, n0 <= n -> p_block n off ts = Ok (b, r).
Definition PSS c ts l r := exists n0, forall n, n0 <= n -> p_stmts n c ts = Ok (l, r).

Ltac fuel n := destruct n as [|n]; [lia|].
Ltac ev2 n1 n2 := exists (S (Nat.max n1 n2)); intros n Hn; fuel n.
Ltac ev1 n1 := exists (S n1); intros n Hn; fuel n.

Definition head_tok (ts : list ptok) : option tok := match ts with (t, _) :: _ => Some t | [] => None end.
Definition nobin (ts : list ptok) : Prop := match ts with (t, _) :: _ => is_binop t = false | [] => True end.

(* ---------------------------------------------------------------- derived rules *)
Lemma PE_intro off ts e r e' r' : PT off ts e r -> PBA off e r e' r' -> PE off ts e' r'.
Proof. intros (n1 & H1) (n2 & H2). ev2 n1 n2. cbn [p_expr]. rewrite H1 by lia. cbn [bind]. apply H2; lia. Qed.

Lemma PBA_stop off cur ts : nobin (skip_eol ts) -> PBA off cur ts cur ts.
Proof.
  intros N. exists 1. intros n Hn. fuel n. cbn [p_binafter].
  destruct (skip_eol ts) as [|[t c] r]; [reflexivity|]. cbn in N. rewrite N. reflexivity.
Qed.

Lemma PBA_op off cur ts t c r rhs r1 e' r' :
  skip_eol ts = (t, c) :: r -> is_binop t = true ->
  PT off r rhs r1 -> PBA off (EBin cur t rhs) r1 e' r' -> PBA off cur ts e' r'.
Proof.
  intros E B (n1 & H1) (n2 & H2). ev2 n1 n2. cbn [p_binafter]. rewrite E, B.
  rewrite H1 by lia. cbn [bind]. apply H2; lia.
Qed.

Definition atom_head (t : tok) : Prop :=
  match t with TA _ | TSTR _ | TUS | TLP | TLB | TDOT => True | _ => False end.

Lemma PT_atoms off t c r0 l r : atom_head t -> PAS off ((t, c) :: r0) l r -> PT off ((t, c) :: r0) (EApp l) r.
Proof.
  intros A (n1 & H1). ev1 n1. cbn [p_term].
  destruct t; cbn in A; try contradiction; rewrite H1 by lia; reflexivity.
Qed.

Lemma PRS_union off c r l r' :
  is_default_mr ((TBAR, c) :: r) = false -> is_slit_rule ((TBAR, c) :: r) = false ->
  PUR off ((TBAR, c) :: r) l r' -> PRS off ((TBAR, c) :: r) l r'.
Proof. intros D S (n1 & H1). ev1 n1. cbn [p_rules]. rewrite D, S. apply H1; lia. Qed.

Lemma PT_match off c r target c1 r2 rules r3 :
  PE off r target ((TWITH, c1) :: r2) -> PRS off (skip_eol r2) rules r3 ->
  PT off ((TMATCH, c) :: r) (EMatch target rules) r3.
Proof.
  intros (n1 & H1) (n2 & H2). ev2 n1 n2. cbn [p_term]. rewrite H1 by lia. cbn [bind].
  rewrite H2 by lia. reflexivity.
Qed.

Lemma PT_fun off c r ps c1 r2 b r3 :
  span_until is_arrow r = (ps, (TARROW, c1) :: r2) -> PB off (skip_eol r2) b r3 ->
  PT off ((TFUN, c) :: r) (EFun ps b) r3.
Proof. intros E (n1 & H1). ev1 n1. cbn [p_term]. rewrite E. rewrite H1 by lia. reflexivity. Qed.

Lemma PT_if off c r e r' : PIF off r e r' -> PT off ((TIF, c) :: r) e r'.
Proof. intros (n1 & H1). ev1 n1. cbn [p_term]. apply H1; lia. Qed.

Lemma PIF_else off ts cond c1 c2 r2 tb r3 c3 r4 eb r5 :
  PE off ts cond ((TTHEN, c1) :: (TEOL, c2) :: r2) ->
  PB off (skip_eol ((TEOL, c2) :: r2)) tb r3 ->
  skip_eol r3 = (TELSE, c3) :: r4 -> PB off (skip_eol r4) eb r5 ->
  PIF off ts (EIf cond tb (Some eb)) r5.
Proof.
  intros (n1 & H1) (n2 & H2) E (n3 & H3). exists (S (Nat.max n1 (Nat.max n2 n3))). intros n Hn. fuel n.
  cbn [p_if]. rewrite H1 by lia. cbn [bind head_is_eol]. rewrite H2 by lia. cbn [bind]. rewrite E.
  rewrite H3 by lia. reflexivity.
Qed.

Lemma PIF_elif off ts cond c1 c2 r2 tb r3 c3 r4 e r5 :
  PE off ts cond ((TTHEN, c1) :: (TEOL, c2) :: r2) ->
  PB off (skip_eol ((TEOL, c2) :: r2)) tb r3 ->
  skip_eol r3 = (TELIF, c3) :: r4 -> PIF off r4 e r5 ->
  PIF off ts (EIf cond tb (Some (Blk [SExpr e]))) r5.
Proof.
  intros (n1 & H1) (n2 & H2) E (n3 & H3). exists (S (Nat.max n1 (Nat.max n2 n3))). intros n Hn. fuel n.
  cbn [p_if]. rewrite H1 by lia. cbn [bind head_is_eol]. rewrite H2 by lia. cbn [bind]. rewrite E.
  rewrite H3 by lia. reflexivity.
Qed.

Lemma PIF_to1 off ts cond c1 r2 e r' :
  PE off ts cond ((TTHEN, c1) :: r2) -> head_is_eol r2 = false -> PIF1 off cond r2 e r' -> PIF off ts e r'.
Proof.
  intros (n1 & H1) N (n2 & H2). ev2 n1 n2. cbn [p_if]. rewrite H1 by lia. cbn [bind]. rewrite N. apply H2; lia.
Qed.

Lemma PIF1_else off cond r2 te c3 r4 ee r5 :
  PE off r2 te ((TELSE, c3) :: r4) -> PE off r4 ee r5 ->
  PIF1 off cond r2 (EIf cond (Blk [SExpr te]) (Some (Blk [SExpr ee]))) r5.
Proof.
  intros (n1 & H1) (n2 & H2). ev2 n1 n2. cbn [p_if1]. rewrite H1 by lia. cbn [bind]. rewrite H2 by lia. reflexivity.
Qed.

Lemma PIF1_elif off cond r2 te c3 r4 e r5 :
  PE off r2 te ((TELIF, c3) :: r4) -> PIF off r4 e r5 ->
  PIF1 off cond r2 (EIf cond (Blk [SExpr te]) (Some (Blk [SExpr e]))) r5.
Proof.
  intros (n1 & H1) (n2 & H2). ev2 n1 n2. cbn [p_if1]. rewrite H1 by lia. cbn [bind]. rewrite H2 by lia. reflexivity.
Qed.

Definition hd_noelse (k : list ptok) : Prop :=
  match k with (TELSE, _) :: _ => False | (TELIF, _) :: _ => False | _ => True end.

Lemma PIF1_nl off cond r2 te r3 e r' :
  PE off r2 te r3 -> hd_noelse r3 -> PNL off cond te r3 e r' -> PIF1 off cond r2 e r'.
Proof.
  intros (n1 & H1) N (n2 & H2). ev2 n1 n2. cbn [p_if1]. rewrite H1 by lia. cbn [bind].
  destruct r3 as [|[t c] r]; [apply H2; lia|]. destruct t; try (apply H2; lia); contradiction.
Qed.

Lemma PNL_else off cond te r3 ec r4 eb r5 :
  head_is_eol r3 = true -> skip_eol r3 = (TELSE, ec) :: r4 -> off <= ec -> PB off (skip_eol r4) eb r5 ->
  PNL off cond te r3 (EIf cond (Blk [SExpr te]) (Some eb)) r5.
Proof.
  intros Hd E L (n1 & H1). ev1 n1. cbn [p_if_nl]. rewrite Hd, E. cbn [col_inside].
  rewrite (proj2 (Nat.leb_le off ec) L). cbn [andb]. rewrite H1 by lia. reflexivity.
Qed.

Lemma PNL_elif off cond te r3 ec r4 e r5 :
  head_is_eol r3 = true -> skip_eol r3 = (TELIF, ec) :: r4 -> off <= ec -> PIF off r4 e r5 ->
  PNL off cond te r3 (EIf cond (Blk [SExpr te]) (Some (Blk [SExpr e]))) r5.
Proof.
  intros Hd E L (n1 & H1). ev1 n1. cbn [p_if_nl]. rewrite Hd, E. cbn [col_inside].
  rewrite (proj2 (Nat.leb_le off ec) L). cbn [andb]. rewrite H1 by lia. reflexivity.
Qed.

Lemma PNL_none off cond te r3 :
  (head_is_eol r3 && col_inside off (skip_eol r3) = true -> hd_noelse (skip_eol r3)) ->
  PNL off cond te r3 (EIf cond (Blk [SExpr te]) None) r3.
Proof.
  intros N. exists 1. intros n Hn. fuel n. cbn [p_if_nl].
  destruct (head_is_eol r3 && col_inside off (skip_eol r3)); [|reflexivity]. specialize (N eq_refl).
  destruct (skip_eol r3) as [|[t c] r]; [reflexivity|]. destruct t; try reflexivity; contradiction.
Qed.

Lemma PIF_none off ts cond c1 c2 r2 tb r3 :
  PE off ts cond ((TTHEN, c1) :: (TEOL, c2) :: r2) ->
  PB off (skip_eol ((TEOL, c2) :: r2)) tb r3 ->
  match skip_eol r3 with (TELSE, _) :: _ => False | (TELIF, _) :: _ => False | _ => True end ->
  PIF off ts (EIf cond tb None) r3.
Proof.
  intros (n1 & H1) (n2 & H2) N. ev2 n1 n2. cbn [p_if]. rewrite H1 by lia. cbn [bind head_is_eol]. rewrite H2 by lia. cbn [bind].
  destruct (skip_eol r3) as [|[t c] r]; [reflexivity|]. destruct t; try reflexivity; contradiction.
Qed.

Lemma PAS_one off ts a r : PA off ts a r -> end_of_term r = true -> PAS off ts [a] r.
Proof. intros (n1 & H1) E. ev1 n1. cbn [p_atoms]. rewrite H1 by lia. cbn [bind]. rewrite E. reflexivity. Qed.

Lemma PAS_cons off ts a r l r' :
  PA off ts a r -> end_of_term r = false -> PAS off r l r' -> PAS off ts (a :: l) r'.
Proof.
  intros (n1 & H1) E (n2 & H2). ev2 n1 n2. cbn [p_atoms]. rewrite H1 by lia. cbn [bind]. rewrite E.
  rewrite H2 by lia. reflexivity.
Qed.

Lemma PA_ta off a c r : PA off ((TA a, c) :: r) (AT (TA a)) r.
Proof. exists 1. intros n Hn. fuel n. reflexivity. Qed.
Lemma PA_str off a c r : PA off ((TSTR a, c) :: r) (AT (TSTR a)) r.
Proof. exists 1. intros n Hn. fuel n. reflexivity. Qed.

Lemma PA_par off c t1 c1 r e c2 r3 :
  t1 <> TRP -> PE off ((t1, c1) :: r) e ((TRP, c2) :: r3) ->
  PA off ((TLP, c) :: (t1, c1) :: r) (APar [e]) r3.
Proof.
  intros N (n1 & H1). exists (S (S n1)). intros n Hn. fuel n. cbn [p_atom].
  assert (H1' := H1 n ltac:(lia)).
  destruct t1; try congruence; rewrite H1'; cbn [bind]; (fuel n; cbn [p_commas bind]; reflexivity).
Qed.

Lemma PA_unit off c c1 r : PA off ((TLP, c) :: (TRP, c1) :: r) (APar []) r.
Proof. exists 1. intros n Hn. fuel n. reflexivity. Qed.

Lemma PCM_nil off ts : match ts with (TCOMMA, _) :: _ => False | _ => True end -> PCM off ts [] ts.
Proof.
  intros N. exists 1. intros n Hn. fuel n. cbn [p_commas].
  destruct ts as [|[t c] r]; [reflexivity|]. destruct t; try reflexivity; contradiction.
Qed.
Lemma PCM_cons off c r e r1 es r2 :
  PE off r e r1 -> PCM off r1 es r2 -> PCM off ((TCOMMA, c) :: r) (e :: es) r2.
Proof.
  intros (n1 & H1) (n2 & H2). ev2 n1 n2. cbn [p_commas]. rewrite H1 by lia. cbn [bind]. rewrite H2 by lia. reflexivity.
Qed.
Lemma PSM_nil off ts : match ts with (TSEMI, _) :: _ => False | _ => True end -> PSM off ts [] ts.
Proof.
  intros N. exists 1. intros n Hn. fuel n. cbn [p_semis].
  destruct ts as [|[t c] r]; [reflexivity|]. destruct t; try reflexivity; contradiction.
Qed.
Lemma PSM_cons off c r e r1 es r2 :
  PE off r e r1 -> PSM off r1 es r2 -> PSM off ((TSEMI, c) :: r) (e :: es) r2.
Proof.
  intros (n1 & H1) (n2 & H2). ev2 n1 n2. cbn [p_semis]. rewrite H1 by lia. cbn [bind]. rewrite H2 by lia. reflexivity.
Qed.

Lemma PA_tuple off c t1 c1 r e r1 es c2 r3 :
  t1 <> TRP -> PE off ((t1, c1) :: r) e r1 -> PCM off r1 es ((TRP, c2) :: r3) ->
  PA off ((TLP, c) :: (t1, c1) :: r) (APar (e :: es)) r3.
Proof.
  intros N (n1 & H1) (n2 & H2). ev2 n1 n2. cbn [p_atom].
  assert (H1' := H1 n ltac:(lia)). assert (H2' := H2 n ltac:(lia)).
  destruct t1; try congruence; rewrite H1'; cbn [bind]; rewrite H2'; reflexivity.
Qed.
Lemma PA_slice off c r e r1 es c2 r3 :
  PE off r e r1 -> PSM off r1 es ((TRS, c2) :: r3) -> PA off ((TLS, c) :: r) (ASlice (e :: es)) r3.
Proof.
  intros (n1 & H1) (n2 & H2). ev2 n1 n2. cbn [p_atom]. rewrite H1 by lia. cbn [bind]. rewrite H2 by lia. reflexivity.
Qed.
Lemma PA_rec off c r fs c2 r2 : PFL off r fs ((TRB, c2) :: r2) -> PA off ((TLB, c) :: r) (ARec fs) r2.
Proof. intros (n1 & H1). ev1 n1. cbn [p_atom]. rewrite H1 by lia. reflexivity. Qed.
Lemma PT_slice off c r a r' : PA off ((TLS, c) :: r) a r' -> PT off ((TLS, c) :: r) (EApp [a]) r'.
Proof. intros (n1 & H1). ev1 n1. cbn [p_term]. rewrite H1 by lia. reflexivity. Qed.

Lemma PFL_last off x c r nm c1 r2 e c2 r4 :
  field_name x r = (nm, (TEQ, c1) :: r2) -> PE off (skip_eol r2) e ((TRB, c2) :: r4) ->
  PFL off ((TA x, c) :: r) [(nm, e)] ((TRB, c2) :: r4).
Proof. intros E (n1 & H1). ev1 n1. cbn [p_fields]. rewrite E. rewrite H1 by lia. reflexivity. Qed.
Lemma PFL_cons off x c r nm c1 r2 e c2 r4 fs r5 :
  field_name x r = (nm, (TEQ, c1) :: r2) -> PE off (skip_eol r2) e ((TSEMI, c2) :: r4) -> PFL off r4 fs r5 ->
  PFL off ((TA x, c) :: r) ((nm, e) :: fs) r5.
Proof.
  intros E (n1 & H1) (n2 & H2). ev2 n1 n2. cbn [p_fields]. rewrite E. rewrite H1 by lia. cbn [bind].
  rewrite H2 by lia. reflexivity.
Qed.

Lemma PRL_intro off c r pat c1 r2 b r3 :
  span_until is_arrow r = (pat, (TARROW, c1) :: r2) -> PB off (skip_eol r2) b r3 ->
  PRL off ((TBAR, c) :: r) (Rule pat b) r3.
Proof. intros E (n1 & H1). ev1 n1. cbn [p_rule]. rewrite E. rewrite H1 by lia. reflexivity. Qed.

Lemma PUR_last off ts r1 rest : PRL off ts r1 rest -> bar_inside off rest = false -> PUR off ts [r1] rest.
Proof. intros (n1 & H1) B. ev1 n1. cbn [p_urules]. rewrite H1 by lia. cbn [bind]. rewrite B. reflexivity. Qed.

Lemma PUR_more off ts r1 rest rs rest' :
  PRL off ts r1 rest -> bar_inside off rest = true -> is_default_mr rest = false ->
  PUR off (skip_eol rest) rs rest' -> PUR off ts (r1 :: rs) rest'.
Proof.
  intros (n1 & H1) B D (n2 & H2). ev2 n1 n2. cbn [p_urules]. rewrite H1 by lia. cbn [bind]. rewrite B, D.
  cbn [andb negb]. rewrite H2 by lia. reflexivity.
Qed.

Lemma PUR_def off ts r1 rest d rest' :
  PRL off ts r1 rest -> bar_inside off rest = true -> is_default_mr rest = true ->
  PRL off rest d rest' -> PUR off ts [r1; d] rest'.
Proof.
  intros (n1 & H1) B D (n2 & H2). ev2 n1 n2. cbn [p_urules]. rewrite H1 by lia. cbn [bind]. rewrite B, D.
  cbn [andb negb]. rewrite H2 by lia. reflexivity.
Qed.

Lemma PRS_string off ts l r' :
  is_default_mr ts = false -> is_slit_rule ts = true -> PSR off ts l r' -> PRS off ts l r'.
Proof. intros D S (n1 & H1). ev1 n1. cbn [p_rules]. rewrite D, S. apply H1; lia. Qed.

Lemma PSR_more off ts r1 rest rs rest' :
  PRL off ts r1 rest -> is_slit_rule rest = true -> PSR off rest rs rest' -> PSR off ts (r1 :: rs) rest'.
Proof.
  intros (n1 & H1) S (n2 & H2). ev2 n1 n2. cbn [p_srules]. rewrite H1 by lia. cbn [bind]. rewrite S.
  rewrite H2 by lia. reflexivity.
Qed.

Lemma PSR_last off ts r1 rest d rest' :
  PRL off ts r1 rest -> is_slit_rule rest = false -> is_default_mr rest && negb (bar_inside off rest) = false ->
  PRL off rest d rest' -> PSR off ts [r1; d] rest'.
Proof.
  intros (n1 & H1) S D (n2 & H2). ev2 n1 n2. cbn [p_srules]. rewrite H1 by lia. cbn [bind]. rewrite S, D.
  rewrite H2 by lia. reflexivity.
Qed.

Lemma PS_letv off c r hdr c1 r2 e r3 :
  span_until is_eq r = (hdr, (TEQ, c1) :: r2) -> is_var_hdr hdr = true -> PE off (skip_eol r2) e r3 ->
  PS off ((TLET, c) :: r) (SLet hdr e) r3.
Proof. intros E V (n1 & H1). ev1 n1. cbn [p_stmt]. rewrite E, V. rewrite H1 by lia. reflexivity. Qed.
Lemma PS_let off c r x c1 r2 e r3 :
  span_until is_eq r = ([TA x], (TEQ, c1) :: r2) -> PE off (skip_eol r2) e r3 ->
  PS off ((TLET, c) :: r) (SLet [TA x] e) r3.
Proof. intros E P. eapply PS_letv; [exact E|reflexivity|exact P]. Qed.

Lemma PS_letfn off c r hdr c1 r2 b r3 :
  span_until is_eq r = (hdr, (TEQ, c1) :: r2) -> is_var_hdr hdr = false -> PB off (skip_eol r2) b r3 ->
  PS off ((TLET, c) :: r) (SLetFn hdr b) r3.
Proof. intros E V (n1 & H1). ev1 n1. cbn [p_stmt]. rewrite E, V. rewrite H1 by lia. reflexivity. Qed.

Definition expr_head (t : tok) : Prop :=
  match t with TA _ | TSTR _ | TUS | TLP | TLB | TLS | TDOT | TIF | TMATCH | TFUN => True | _ => False end.

Lemma PS_expr off t c r0 e r : expr_head t -> PE off ((t, c) :: r0) e r -> PS off ((t, c) :: r0) (SExpr e) r.
Proof.
  intros Hd (n1 & H1). ev1 n1. cbn [p_stmt].
  destruct t; cbn in Hd; try contradiction; rewrite H1 by lia; reflexivity.
Qed.

Lemma PB_intro off t c r ss r' :
  off < c -> PSS c ((t, c) :: r) ss r' -> last_is_expr ss = true -> PB off ((t, c) :: r) (Blk ss) r'.
Proof.
  intros L (n1 & H1) E. ev1 n1. cbn [p_block].
  destruct (c <=? off) eqn:Ec; [apply Nat.leb_le in Ec; lia|]. rewrite H1 by lia. cbn [bind]. rewrite E. reflexivity.
Qed.

Lemma PSS_one c ts s r : PS c ts s r -> end_of_block c (skip_eol r) = true -> PSS c ts [s] (skip_eol r).
Proof. intros (n1 & H1) E. ev1 n1. cbn [p_stmts]. rewrite H1 by lia. cbn [bind]. cbv zeta. rewrite E. reflexivity. Qed.

Lemma PSS_cons c ts s r ss r2 :
  PS c ts s r -> end_of_block c (skip_eol r) = false -> PSS c (skip_eol r) ss r2 -> PSS c ts (s :: ss) r2.
Proof.
  intros (n1 & H1) E (n2 & H2). ev2 n1 n2. cbn [p_stmts]. rewrite H1 by lia. cbn [bind]. cbv zeta. rewrite E.
  rewrite H2 by lia. reflexivity.
Qed.

(* ---------------------------------------------------------------- token list facts *)
Lemma skip_eol_idem k : skip_eol (skip_eol k) = skip_eol k.
Proof. induction k as [|[t c] r IH]; [reflexivity|]. destruct t; cbn; auto. Qed.

Lemma skip_eol_nonEOL t c r : t <> TEOL -> skip_eol ((t, c) :: r) = (t, c) :: r.
Proof. destruct t; cbn; auto; congruence. Qed.

Lemma skip_eol_head_nonEOL k t c r : skip_eol k = (t, c) :: r -> t <> TEOL.
Proof.
  induction k as [|[t0 c0] r0 IH]; [discriminate|]. destruct t0; cbn; try (intros E; inversion E; subst; discriminate).
  exact IH.
Qed.

Ltac norm_app := repeat (cbn [app]; rewrite <- ?app_assoc); cbn [app].

Section Inv.
Variable inner : nat.

Notation eols := (eols inner).
Notation nl := (nl inner).
Notation atoks := (atoks inner).

Lemma skip_eols b k : skip_eol (eols b ++ k) = skip_eol k.
Proof. unfold Layout.eols. induction b; cbn; auto. Qed.
Lemma skip_nl b k : skip_eol (nl b ++ k) = skip_eol k.
Proof. unfold Layout.nl. cbn [app skip_eol]. apply skip_eols. Qed.
Lemma end_of_term_nl b k : end_of_term (nl b ++ k) = true.
Proof. reflexivity. Qed.

(* unfolding equations of the mutually recursive definitions (all by computation) *)
Lemma r_atom_LLam c ps b cl : r_atom inner c (LLam ps b cl) =
  (TLP, c) :: (TFUN, inner) :: atoks ps ++ (TARROW, inner) :: r_body inner b ++ r_close inner cl.
Proof. reflexivity. Qed.
Lemma r_atom_LGroup c k f e more cl : r_atom inner c (LGroup k f e more cl) =
  (g_open k, c) :: r_fld inner inner f ++ r_expr inner (fld_col inner inner f) e ++ r_seq inner k more ++ r_gclose inner k cl.
Proof. reflexivity. Qed.
Lemma r_seq_QCons k sb f c e more : r_seq inner k (QCons sb f c e more) =
  r_sep inner k sb ++ r_fld inner c f ++ r_expr inner (fld_col inner c f) e ++ r_seq inner k more.
Proof. reflexivity. Qed.
Lemma er_atom_LGroup k f e more cl : er_atom (LGroup k f e more cl) =
  match k with
  | GPar => APar (er_expr e :: er_seq more)
  | GSlice => ASlice (er_expr e :: er_seq more)
  | GRec => ARec ((er_fld f, er_expr e) :: er_fseq more)
  end.
Proof. reflexivity. Qed.
Lemma er_seq_QCons sb f c e more : er_seq (QCons sb f c e more) = er_expr e :: er_seq more.
Proof. reflexivity. Qed.
Lemma er_fseq_QCons sb f c e more : er_fseq (QCons sb f c e more) = (er_fld f, er_expr e) :: er_fseq more.
Proof. reflexivity. Qed.
Lemma wf_atom_LGroup off k f e more cl : wf_atom off (LGroup k f e more cl) =
  (fld_ok k f /\ wf_expr off e /\ wf_seq off k (expr_bd e) more cl).
Proof. reflexivity. Qed.
Lemma wf_seq_QNil off k bd cl : wf_seq off k bd QNil cl = close_ok k bd cl.
Proof. reflexivity. Qed.
Lemma wf_seq_QCons off k bd sb f c e more cl : wf_seq off k bd (QCons sb f c e more) cl =
  (sep_ok bd sb /\ fld_ok k f /\ wf_expr off e /\ wf_seq off k (expr_bd e) more cl).
Proof. reflexivity. Qed.
Lemma r_stmt_LLetD_same c x y zs e : r_stmt inner c (LLetD x y zs None e) =
  (TLET, c) :: (TLP, inner) :: (TA x, inner) :: (TCOMMA, inner) :: (TA y, inner) :: r_dnames inner zs ++
  (TRP, inner) :: (TEQ, inner) :: r_expr inner inner e.
Proof. reflexivity. Qed.
Lemma r_stmt_LLetD_next c x y zs bl c' e : r_stmt inner c (LLetD x y zs (Some (bl, c')) e) =
  (TLET, c) :: (TLP, inner) :: (TA x, inner) :: (TCOMMA, inner) :: (TA y, inner) :: r_dnames inner zs ++
  (TRP, inner) :: (TEQ, inner) :: nl bl ++ r_expr inner c' e.
Proof. reflexivity. Qed.
Lemma er_stmt_LLetD x y zs nl0 e : er_stmt (LLetD x y zs nl0 e) =
  SLet (TLP :: TA x :: TCOMMA :: TA y :: er_dnames zs ++ [TRP]) (er_expr e).
Proof. reflexivity. Qed.
Lemma wf_stmt_LLetD off x y zs nl0 e : wf_stmt off (LLetD x y zs nl0 e) = wf_expr off e.
Proof. reflexivity. Qed.
Lemma r_atoms_ACons c a l : r_atoms inner (ACons c a l) = r_atom inner c a ++ r_atoms inner l.
Proof. reflexivity. Qed.
Lemma r_term_LApp c a l : r_term inner c (LApp a l) = r_atom inner c a ++ r_atoms inner l.
Proof. reflexivity. Qed.
Lemma r_term_LSMatch c tg b0 arms : r_term inner c (LSMatch tg b0 arms) =
  (TMATCH, c) :: r_sx inner inner tg ++ (TWITH, inner) :: nl b0 ++ r_sarms inner arms.
Proof. reflexivity. Qed.
Lemma r_ifrest_IEnd : r_ifrest inner IEnd = [].
Proof. reflexivity. Qed.
Lemma r_sarms_SLast_var bc v b : r_sarms inner (SLast bc (Some v) b) =
  (TBAR, bc) :: (TA v, inner) :: (TARROW, inner) :: r_body inner b.
Proof. reflexivity. Qed.
Lemma r_sarms_SLast_def bc b : r_sarms inner (SLast bc None b) =
  (TBAR, bc) :: (TUS, inner) :: (TARROW, inner) :: r_body inner b.
Proof. reflexivity. Qed.
Lemma r_sarms_SCons bc lit b bl r : r_sarms inner (SCons bc lit b bl r) =
  (TBAR, bc) :: (TSTR lit, inner) :: (TARROW, inner) :: r_body inner b ++ nl bl ++ r_sarms inner r.
Proof. reflexivity. Qed.
Lemma r_term_LIf c cd tl : r_term inner c (LIf cd tl) =
  (TIF, c) :: r_sx inner inner cd ++ (TTHEN, inner) :: r_tail inner tl.
Proof. reflexivity. Qed.
Lemma r_tail_TMulti b1 t r : r_tail inner (TMulti b1 t r) = nl b1 ++ r_block inner t ++ r_ifrest inner r.
Proof. reflexivity. Qed.
Lemma r_tail_TOne t r : r_tail inner (TOne t r) = r_sx inner inner t ++ r_1rest inner r.
Proof. reflexivity. Qed.
Lemma r_1rest_R1End : r_1rest inner R1End = [].
Proof. reflexivity. Qed.
Lemma r_1rest_R1Else e : r_1rest inner (R1Else e) = (TELSE, inner) :: r_sx inner inner e.
Proof. reflexivity. Qed.
Lemma r_1rest_R1Elif cd tl : r_1rest inner (R1Elif cd tl) =
  (TELIF, inner) :: r_sx inner inner cd ++ (TTHEN, inner) :: r_tail inner tl.
Proof. reflexivity. Qed.
Lemma r_1rest_R1NlElse bl ec b : r_1rest inner (R1NlElse bl ec b) = nl bl ++ (TELSE, ec) :: r_body inner b.
Proof. reflexivity. Qed.
Lemma r_1rest_R1NlElif bl ec cd tl : r_1rest inner (R1NlElif bl ec cd tl) =
  nl bl ++ (TELIF, ec) :: r_sx inner inner cd ++ (TTHEN, inner) :: r_tail inner tl.
Proof. reflexivity. Qed.
Lemma r_term_LMatch c tg b0 arms : r_term inner c (LMatch tg b0 arms) =
  (TMATCH, c) :: r_sx inner inner tg ++ (TWITH, inner) :: nl b0 ++ r_arms inner arms.
Proof. reflexivity. Qed.
Lemma r_ifrest_IElse bl ec b : r_ifrest inner (IElse bl ec b) = nl bl ++ (TELSE, ec) :: r_body inner b.
Proof. reflexivity. Qed.
Lemma r_ifrest_IElif bl ec cd tl : r_ifrest inner (IElif bl ec cd tl) =
  nl bl ++ (TELIF, ec) :: r_sx inner inner cd ++ (TTHEN, inner) :: r_tail inner tl.
Proof. reflexivity. Qed.
Lemma r_body_BInline b : r_body inner (BInline b) = r_block inner b.
Proof. reflexivity. Qed.
Lemma r_body_BNext bl b : r_body inner (BNext bl b) = nl bl ++ r_block inner b.
Proof. reflexivity. Qed.
Lemma r_expr_LT c t : r_expr inner c (LT t) = r_term inner c t.
Proof. reflexivity. Qed.
Lemma r_expr_LOp c a l brk o e : r_expr inner c (LOp a l brk o e) =
  r_atom inner c a ++ r_atoms inner l ++ r_brk inner brk o ++ r_expr inner inner e.
Proof. reflexivity. Qed.
Lemma r_stmt_LLet_same c x e : r_stmt inner c (LLet x None e) =
  (TLET, c) :: (TA x, inner) :: (TEQ, inner) :: r_expr inner inner e.
Proof. reflexivity. Qed.
Lemma r_stmt_LLet_next c x bl c' e : r_stmt inner c (LLet x (Some (bl, c')) e) =
  (TLET, c) :: (TA x, inner) :: (TEQ, inner) :: nl bl ++ r_expr inner c' e.
Proof. reflexivity. Qed.
Lemma r_stmt_LLetFn c f p ps b : r_stmt inner c (LLetFn f p ps b) =
  (TLET, c) :: (TA f, inner) :: (TA p, inner) :: atoks ps ++ (TEQ, inner) :: r_body inner b.
Proof. reflexivity. Qed.
Lemma r_stmt_LExpr c e : r_stmt inner c (LExpr e) = r_expr inner c e.
Proof. reflexivity. Qed.
Lemma r_block_LB c s r : r_block inner (LB c s r) = r_stmt inner c s ++ r_rest inner r.
Proof. reflexivity. Qed.
Lemma r_rest_LCons bl c s r : r_rest inner (LCons bl c s r) = nl bl ++ r_stmt inner c s ++ r_rest inner r.
Proof. reflexivity. Qed.
Lemma r_arms_MLast bc p b : r_arms inner (MLast bc p b) = (TBAR, bc) :: r_pat inner p ++ (TARROW, inner) :: r_body inner b.
Proof. reflexivity. Qed.
Lemma r_arms_MCons bc p b bl r : r_arms inner (MCons bc p b bl r) =
  (TBAR, bc) :: r_pat inner p ++ (TARROW, inner) :: r_body inner b ++ nl bl ++ r_arms inner r.
Proof. reflexivity. Qed.

Lemma er_atom_LLam ps b cl : er_atom (LLam ps b cl) = APar [EFun (map TA ps) (er_body b)].
Proof. reflexivity. Qed.
Lemma er_atoms_ACons c a l : er_atoms (ACons c a l) = er_atom a :: er_atoms l.
Proof. reflexivity. Qed.
Lemma er_term_LApp a l : er_term (LApp a l) = EApp (er_atom a :: er_atoms l).
Proof. reflexivity. Qed.
Lemma er_term_LIf c tl : er_term (LIf c tl) = er_tail (er_sx c) tl.
Proof. reflexivity. Qed.
Lemma er_tail_TMulti cond b1 t r : er_tail cond (TMulti b1 t r) = EIf cond (er_block t) (er_ifrest r).
Proof. reflexivity. Qed.
Lemma er_tail_TOne cond t r : er_tail cond (TOne t r) = EIf cond (Blk [SExpr (er_sx t)]) (er_1rest r).
Proof. reflexivity. Qed.
Lemma er_1rest_R1Else e : er_1rest (R1Else e) = Some (Blk [SExpr (er_sx e)]).
Proof. reflexivity. Qed.
Lemma er_1rest_R1Elif c tl : er_1rest (R1Elif c tl) = Some (Blk [SExpr (er_tail (er_sx c) tl)]).
Proof. reflexivity. Qed.
Lemma er_1rest_R1NlElse bl ec b : er_1rest (R1NlElse bl ec b) = Some (er_body b).
Proof. reflexivity. Qed.
Lemma er_1rest_R1NlElif bl ec c tl : er_1rest (R1NlElif bl ec c tl) = Some (Blk [SExpr (er_tail (er_sx c) tl)]).
Proof. reflexivity. Qed.
Lemma er_term_LSMatch tg b0 arms : er_term (LSMatch tg b0 arms) = EMatch (er_sx tg) (er_sarms arms).
Proof. reflexivity. Qed.
Lemma er_sarms_SLast_var bc v b : er_sarms (SLast bc (Some v) b) = [Rule [TA v] (er_body b)].
Proof. reflexivity. Qed.
Lemma er_sarms_SLast_def bc b : er_sarms (SLast bc None b) = [Rule [TUS] (er_body b)].
Proof. reflexivity. Qed.
Lemma er_sarms_SCons bc lit b bl r : er_sarms (SCons bc lit b bl r) = Rule [TSTR lit] (er_body b) :: er_sarms r.
Proof. reflexivity. Qed.
Lemma er_term_LMatch tg b0 arms : er_term (LMatch tg b0 arms) = EMatch (er_sx tg) (er_arms arms).
Proof. reflexivity. Qed.
Lemma er_ifrest_IElse bl ec b : er_ifrest (IElse bl ec b) = Some (er_body b).
Proof. reflexivity. Qed.
Lemma er_ifrest_IElif bl ec c tl : er_ifrest (IElif bl ec c tl) = Some (Blk [SExpr (er_tail (er_sx c) tl)]).
Proof. reflexivity. Qed.
Lemma er_body_BInline b : er_body (BInline b) = er_block b.
Proof. reflexivity. Qed.
Lemma er_body_BNext bl b : er_body (BNext bl b) = er_block b.
Proof. reflexivity. Qed.
Lemma er_expr_LT t : er_expr (LT t) = er_term t.
Proof. reflexivity. Qed.
Lemma er_expr_LOp a l brk o e : er_expr (LOp a l brk o e) = er_cont (EApp (er_atom a :: er_atoms l)) o e.
Proof. reflexivity. Qed.
Lemma er_cont_LT cur o t : er_cont cur o (LT t) = EBin cur (TOP o) (er_term t).
Proof. reflexivity. Qed.
Lemma er_cont_LOp cur o a l brk o' e : er_cont cur o (LOp a l brk o' e) =
  er_cont (EBin cur (TOP o) (EApp (er_atom a :: er_atoms l))) o' e.
Proof. reflexivity. Qed.
Lemma er_stmt_LLet x nl0 e : er_stmt (LLet x nl0 e) = SLet [TA x] (er_expr e).
Proof. reflexivity. Qed.
Lemma er_stmt_LLetFn f p ps b : er_stmt (LLetFn f p ps b) = SLetFn (TA f :: TA p :: map TA ps) (er_body b).
Proof. reflexivity. Qed.
Lemma er_stmt_LExpr e : er_stmt (LExpr e) = SExpr (er_expr e).
Proof. reflexivity. Qed.
Lemma er_block_LB c s r : er_block (LB c s r) = Blk (er_stmt s :: er_rest r).
Proof. reflexivity. Qed.
Lemma er_rest_LCons bl c s r : er_rest (LCons bl c s r) = er_stmt s :: er_rest r.
Proof. reflexivity. Qed.
Lemma er_arms_MLast bc p b : er_arms (MLast bc p b) = [Rule (er_pat p) (er_body b)].
Proof. reflexivity. Qed.
Lemma er_arms_MCons bc p b bl r : er_arms (MCons bc p b bl r) = Rule (er_pat p) (er_body b) :: er_arms r.
Proof. reflexivity. Qed.

Lemma wf_atom_LLam off ps b cl : wf_atom off (LLam ps b cl) = wf_body off b.
Proof. reflexivity. Qed.
Lemma wf_atoms_ACons off c a l : wf_atoms off (ACons c a l) = (wf_atom off a /\ wf_atoms off l).
Proof. reflexivity. Qed.
Lemma wf_term_LApp off a l : wf_term off (LApp a l) = (wf_atom off a /\ wf_atoms off l /\ (is_slice a = true -> l = ANil)).
Proof. reflexivity. Qed.
Lemma wf_term_LIf off c tl : wf_term off (LIf c tl) = wf_tail off tl.
Proof. reflexivity. Qed.
Lemma wf_tail_TMulti off b1 t r : wf_tail off (TMulti b1 t r) = (wf_block off t /\ wf_ifrest off t r).
Proof. reflexivity. Qed.
Lemma wf_tail_TOne off t r : wf_tail off (TOne t r) = wf_1rest off r.
Proof. reflexivity. Qed.
Lemma wf_1rest_R1Elif off c tl : wf_1rest off (R1Elif c tl) = wf_tail off tl.
Proof. reflexivity. Qed.
Lemma wf_1rest_R1NlElse off bl ec b : wf_1rest off (R1NlElse bl ec b) = (off <= ec /\ wf_body off b).
Proof. reflexivity. Qed.
Lemma wf_1rest_R1NlElif off bl ec c tl : wf_1rest off (R1NlElif bl ec c tl) = (off <= ec /\ wf_tail off tl).
Proof. reflexivity. Qed.
Lemma wf_term_LSMatch off tg b0 arms : wf_term off (LSMatch tg b0 arms) =
  (match arms with SLast _ _ _ => False | SCons _ _ _ _ _ => True end /\ wf_sarms off None arms).
Proof. reflexivity. Qed.
Lemma wf_sarms_SLast off prev bc fin b : wf_sarms off prev (SLast bc fin b) =
  (under prev bc /\ (fin = None -> off <= bc) /\ wf_body off b).
Proof. reflexivity. Qed.
Lemma wf_sarms_SCons off prev bc lit b bl r : wf_sarms off prev (SCons bc lit b bl r) =
  (under prev bc /\ wf_body off b /\ wf_sarms off (Some (body_col b)) r).
Proof. reflexivity. Qed.
Lemma block_io_LB c s r : block_io (LB c s r) = rest_io (stmt_io s) r.
Proof. reflexivity. Qed.
Lemma rest_io_LCons d bl c s r : rest_io d (LCons bl c s r) = rest_io (stmt_io s) r.
Proof. reflexivity. Qed.
Lemma wf_term_LMatch off tg b0 arms : wf_term off (LMatch tg b0 arms) =
  (match arms with MLast _ p _ => not_default p | MCons _ p _ _ _ => not_default p end /\ wf_arms off None arms).
Proof. reflexivity. Qed.
Lemma wf_ifrest_IElse off prev bl ec b : wf_ifrest off prev (IElse bl ec b) =
  (ec < bcol prev /\ block_io prev = false /\ wf_body off b).
Proof. reflexivity. Qed.
Lemma wf_ifrest_IElif off prev bl ec c tl : wf_ifrest off prev (IElif bl ec c tl) =
  (ec < bcol prev /\ block_io prev = false /\ wf_tail off tl).
Proof. reflexivity. Qed.
Lemma wf_body_BInline off b : wf_body off (BInline b) = wf_block off b.
Proof. reflexivity. Qed.
Lemma wf_body_BNext off bl b : wf_body off (BNext bl b) = wf_block off b.
Proof. reflexivity. Qed.
Lemma wf_expr_LT off t : wf_expr off (LT t) = wf_term off t.
Proof. reflexivity. Qed.
Lemma wf_expr_LOp off a l brk o e : wf_expr off (LOp a l brk o e) =
  (wf_atom off a /\ wf_atoms off l /\ (is_slice a = true -> l = ANil) /\ wf_expr off e).
Proof. reflexivity. Qed.
Lemma wf_stmt_LLet off x nl0 e : wf_stmt off (LLet x nl0 e) = wf_expr off e.
Proof. reflexivity. Qed.
Lemma wf_stmt_LLetFn off f p ps b : wf_stmt off (LLetFn f p ps b) = wf_body off b.
Proof. reflexivity. Qed.
Lemma wf_stmt_LExpr off e : wf_stmt off (LExpr e) = wf_expr off e.
Proof. reflexivity. Qed.
Lemma wf_block_LB off c s r : wf_block off (LB c s r) = (off < c /\ wf_stmt c s /\ wf_rest c s r).
Proof. reflexivity. Qed.
Lemma wf_rest_LNil c prev : wf_rest c prev LNil = is_lexpr prev.
Proof. reflexivity. Qed.
Lemma wf_rest_LCons c prev bl c' s r : wf_rest c prev (LCons bl c' s r) =
  (c <= c' /\ under (stmt_bd prev) c' /\ wf_stmt c s /\ wf_rest c s r).
Proof. reflexivity. Qed.
Lemma wf_arms_MLast off prev bc p b : wf_arms off prev (MLast bc p b) = (off <= bc /\ under prev bc /\ wf_body off b).
Proof. reflexivity. Qed.
Lemma wf_arms_MCons off prev bc p b bl r : wf_arms off prev (MCons bc p b bl r) =
  (off <= bc /\ under prev bc /\ not_default p /\ wf_body off b /\ wf_arms off (Some (body_col b)) r).
Proof. reflexivity. Qed.

(* heads *)
Definition stmt_head (t : tok) : Prop := t = TLET \/ expr_head t.

Lemma atom_head_facts t : atom_head t ->
  expr_head t /\ t <> TEOL /\ t <> TRP /\ t <> TBAR /\ t <> TLET /\ is_binop t = false.
Proof. destruct t; cbn; intros H; try contradiction; repeat split; auto; discriminate. Qed.
Lemma expr_head_facts t : expr_head t ->
  t <> TEOL /\ t <> TRP /\ t <> TBAR /\ t <> TLET /\ is_binop t = false.
Proof. destruct t; cbn; intros H; try contradiction; repeat split; auto; discriminate. Qed.
Lemma stmt_head_facts t : stmt_head t -> t <> TEOL /\ t <> TRP /\ t <> TBAR /\ is_binop t = false.
Proof.
  intros [->|H]; [repeat split; auto; discriminate|]. destruct (expr_head_facts t H) as (? & ? & ? & ? & ?). auto.
Qed.
Lemma stmt_head_noelse t : stmt_head t -> t <> TELSE /\ t <> TELIF.
Proof. intros [->|H]; [split; discriminate|]. destruct t; cbn in H; try contradiction; split; discriminate. Qed.

Lemma r_atom_head c a k : exists t (r : list ptok), r_atom inner c a ++ k = @cons ptok (t, c) r /\
  (if is_slice a then t = TLS else atom_head t).
Proof.
  destruct a as [x|x|ps b cl| |g f e more cl]; try (cbn; eexists; eexists; split; [reflexivity|exact I]).
  rewrite r_atom_LGroup. cbn [app]. eexists; eexists; split; [reflexivity|]. destruct g; cbn; auto.
Qed.
Lemma r_atom_head_e c a k : exists t (r : list ptok), r_atom inner c a ++ k = @cons ptok (t, c) r /\
  expr_head t /\ end_of_term (@cons ptok (t, c) r) = false.
Proof.
  destruct (r_atom_head c a k) as (t & r & E & H). exists t, r. split; [exact E|].
  destruct (is_slice a); [subst t; split; [exact I|reflexivity]|].
  destruct t; cbn in H; try contradiction; split; try exact I; reflexivity.
Qed.

Lemma r_term_head c t k : exists t0 (r : list ptok), r_term inner c t ++ k = @cons ptok (t0, c) r /\ expr_head t0.
Proof.
  destruct t as [a l|cd tl|tg b0 arms|tg b0 arms].
  - rewrite r_term_LApp, <- app_assoc. destruct (r_atom_head_e c a (r_atoms inner l ++ k)) as (t0 & r & E & H & _).
    exists t0, r. split; [exact E|exact H].
  - rewrite r_term_LIf. cbn [app]. eexists; eexists; split; [reflexivity|exact I].
  - rewrite r_term_LMatch. cbn [app]. eexists; eexists; split; [reflexivity|exact I].
  - rewrite r_term_LSMatch. cbn [app]. eexists; eexists; split; [reflexivity|exact I].
Qed.

Lemma r_expr_head c e k : exists t0 (r : list ptok), r_expr inner c e ++ k = @cons ptok (t0, c) r /\ expr_head t0.
Proof.
  destruct e as [t|a l brk o e'].
  - rewrite r_expr_LT. apply r_term_head.
  - rewrite r_expr_LOp, <- app_assoc.
    destruct (r_atom_head_e c a ((r_atoms inner l ++ r_brk inner brk o ++ r_expr inner inner e') ++ k)) as (t0 & r & E & H & _).
    exists t0, r. split; [exact E|exact H].
Qed.

Lemma r_stmt_head c s k : exists t0 (r : list ptok), r_stmt inner c s ++ k = @cons ptok (t0, c) r /\ stmt_head t0.
Proof.
  destruct s as [x [[bl c']|] e|x y zs [[bl c']|] e|f p ps b|e].
  - rewrite r_stmt_LLet_next. cbn [app]. eexists; eexists; split; [reflexivity|left; reflexivity].
  - rewrite r_stmt_LLet_same. cbn [app]. eexists; eexists; split; [reflexivity|left; reflexivity].
  - rewrite r_stmt_LLetD_next. cbn [app]. eexists; eexists; split; [reflexivity|left; reflexivity].
  - rewrite r_stmt_LLetD_same. cbn [app]. eexists; eexists; split; [reflexivity|left; reflexivity].
  - rewrite r_stmt_LLetFn. cbn [app]. eexists; eexists; split; [reflexivity|left; reflexivity].
  - rewrite r_stmt_LExpr. destruct (r_expr_head c e k) as (t0 & r & E & H). exists t0, r. split; [exact E|right; exact H].
Qed.

Lemma r_block_head b k : exists t0 (r : list ptok), r_block inner b ++ k = @cons ptok (t0, bcol b) r /\ stmt_head t0.
Proof. destruct b as [c s r]. rewrite r_block_LB. cbn [bcol]. rewrite <- app_assoc. apply r_stmt_head. Qed.

Lemma skip_block b k : skip_eol (r_block inner b ++ k) = r_block inner b ++ k.
Proof.
  destruct (r_block_head b k) as (t0 & r & E & H). rewrite E. apply skip_eol_nonEOL.
  apply (stmt_head_facts t0 H).
Qed.
Lemma skip_expr c e k : skip_eol (r_expr inner c e ++ k) = r_expr inner c e ++ k.
Proof.
  destruct (r_expr_head c e k) as (t0 & r & E & H). rewrite E. apply skip_eol_nonEOL.
  apply (expr_head_facts t0 H).
Qed.
Lemma skip_stmt c s k : skip_eol (r_stmt inner c s ++ k) = r_stmt inner c s ++ k.
Proof.
  destruct (r_stmt_head c s k) as (t0 & r & E & H). rewrite E. apply skip_eol_nonEOL.
  apply (stmt_head_facts t0 H).
Qed.

(* spans *)
Lemma span_atoks stop l t c r :
  (forall a, stop (TA a) = false) -> stop t = true ->
  span_until stop (atoks l ++ (t, c) :: r) = (map TA l, (t, c) :: r).
Proof.
  intros Hs Ht. induction l as [|a l IH]; cbn [Layout.atoks map app span_until].
  - rewrite Ht. reflexivity.
  - rewrite Hs. cbn [orb]. unfold Layout.atoks in IH. rewrite IH. reflexivity.
Qed.

(* ---------------------------------------------------------------- one-line expressions *)
Lemma PAS_atoks off a c l k : end_of_term k = true ->
  PAS off ((TA a, c) :: atoks l ++ k) (AT (TA a) :: map (fun x => AT (TA x)) l) k.
Proof.
  intros E. revert a c. induction l as [|b l IH]; intros a c; cbn [Layout.atoks map app].
  - apply PAS_one; [apply PA_ta|exact E].
  - eapply PAS_cons; [apply PA_ta|reflexivity|]. apply IH.
Qed.

Lemma PT_sxt off c t k : end_of_term k = true -> PT off (r_sxt inner c t ++ k) (er_sxt t) k.
Proof. intros E. destruct t as [a l]. unfold r_sxt, er_sxt. cbn [fst snd app]. apply PT_atoms; [exact I|]. apply PAS_atoks; exact E. Qed.

Lemma PBA_sxrest off l : forall cur k, end_of_term k = true -> nobin (skip_eol k) ->
  PBA off cur (r_sxrest inner l ++ k) (er_sxrest cur l) k.
Proof.
  induction l as [|[o t] l IH]; intros cur k E N; cbn [r_sxrest er_sxrest app].
  - apply PBA_stop. exact N.
  - eapply PBA_op; [reflexivity|reflexivity| |].
    + rewrite <- app_assoc. apply PT_sxt. destruct l as [|[o' t'] l']; [exact E|reflexivity].
    + apply IH; assumption.
Qed.

Lemma PE_sx off c s k : end_of_term k = true -> nobin (skip_eol k) ->
  PE off (r_sx inner c s ++ k) (er_sx s) k.
Proof.
  intros E N. destruct s as [t l]. unfold r_sx, er_sx. cbn [fst snd]. rewrite <- app_assoc.
  eapply PE_intro.
  - apply PT_sxt. destruct l as [|[o' t'] l']; [exact E|reflexivity].
  - apply PBA_sxrest; assumption.
Qed.

Lemma r_sx_head c s k : exists a r, r_sx inner c s ++ k = (TA a, c) :: r.
Proof. destruct s as [[a l] rest]. unfold r_sx, r_sxt. cbn. eexists; eexists; reflexivity. Qed.

(* ---------------------------------------------------------------- continuation contracts *)
Definition nohd_else (k : list ptok) : Prop := hd_noelse k.
Definition noelse (t : tok) : Prop := t <> TELSE /\ t <> TELIF.
(** tokens that a construct of the current block may still take when they stand inside its offside line *)
Definition takes (t : tok) : Prop := t = TBAR \/ t = TELSE \/ t = TELIF.

(** what may follow a block of column c: the line ends (or ')' / end of input), and the next token is no
    operator, is ')' or strictly left of c, and is not else/elif when the block ends in an if without else *)
Definition bfol (c : nat) (io : bool) (k : list ptok) : Prop :=
  end_of_term k = true /\ nohd_else k /\
  match skip_eol k with [] => True | (t, c') :: _ =>
    is_binop t = false /\ (t = TRP \/ c' < c) /\ (io = true -> noelse t) end.

(** what may follow an expression / statement inside a block of column off: additionally the next token
    is left of every block the construct leaves open (bd), and a '|' / else / elif is left of off when the
    construct ends with the arms of a union match or a one-line if without else (tm) *)
Definition efol (off : nat) (bd : option nat) (tm io : bool) (k : list ptok) : Prop :=
  end_of_term k = true /\ nohd_else k /\
  match skip_eol k with [] => True | (t, c') :: _ =>
    is_binop t = false /\ (forall b, bd = Some b -> t = TRP \/ c' < b) /\ (tm = true -> takes t -> c' < off) /\
    (io = true -> noelse t) end.

Definition aft (bd : option nat) (k : list ptok) : list ptok :=
  match bd with None => k | Some _ => skip_eol k end.

Definition tfol (off : nat) (t : lterm) (k : list ptok) : Prop :=
  match t with LApp _ _ => end_of_term k = true | _ => efol off (term_bd t) (term_tm t) (term_io t) k end.

Lemma skip_aft bd k : skip_eol (aft bd k) = skip_eol k.
Proof. destruct bd; cbn [aft]; [apply skip_eol_idem|reflexivity]. Qed.

Lemma efol_nobin off bd tm io k : efol off bd tm io k -> nobin (skip_eol k).
Proof. intros (_ & _ & H). destruct (skip_eol k) as [|[t c] r]; [exact I|]. apply H. Qed.

Lemma efol_bfol off b tm io k : efol off (Some b) tm io k -> bfol b io k.
Proof.
  intros (E & NE & H). split; [exact E|]. split; [exact NE|]. destruct (skip_eol k) as [|[t c] r]; [exact I|].
  destruct H as (N & B & _ & IO). split; [exact N|]. split; [apply B; reflexivity|exact IO].
Qed.

Lemma efol_tfol off t k : efol off (term_bd t) (term_tm t) (term_io t) k -> tfol off t k.
Proof. intros H. destruct t; cbn [tfol]; try exact H. apply H. Qed.

Lemma nohd_else_nl b k : nohd_else (nl b ++ k).
Proof. exact I. Qed.

(* a block's column bounds what its statements leave open *)
Lemma wf_body_col off b : wf_body off b -> off < body_col b.
Proof. destruct b as [[c s r]|bl [c s r]]; cbn; intros (H & _); exact H. Qed.
Lemma wf_block_col off b : wf_block off b -> off < bcol b.
Proof. destruct b as [c s r]. cbn. intros (H & _); exact H. Qed.
Scheme liftail_s := Induction for liftail Sort Prop
  with lifrest_s := Induction for lifrest Sort Prop
  with l1rest_s := Induction for l1rest Sort Prop.
Combined Scheme if_mutind from liftail_s, lifrest_s, l1rest_s.

Lemma wf_if_bd off :
  (forall tl, wf_tail off tl -> forall b, tail_bd tl = Some b -> off < b) /\
  (forall r, forall prev, off < bcol prev -> wf_ifrest off prev r -> forall b, ifrest_bd (bcol prev) r = Some b -> off < b) /\
  (forall r, wf_1rest off r -> forall b, r1_bd r = Some b -> off < b).
Proof.
  apply if_mutind.
  - intros b1 t r IH W b E. rewrite wf_tail_TMulti in W. destruct W as (Wt & Wr).
    cbn [tail_bd] in E. eapply IH; [apply wf_block_col; exact Wt|exact Wr|exact E].
  - intros t r IH W b E. rewrite wf_tail_TOne in W. cbn [tail_bd] in E. eapply IH; eassumption.
  - intros prev L _ b E. cbn [ifrest_bd] in E. inversion E; subst. exact L.
  - intros bl ec b0 prev L W b E. rewrite wf_ifrest_IElse in W. destruct W as (_ & _ & Wb).
    cbn [ifrest_bd] in E. inversion E; subst. apply wf_body_col; exact Wb.
  - intros bl ec c tl IH prev L W b E. rewrite wf_ifrest_IElif in W. destruct W as (_ & _ & Wt).
    cbn [ifrest_bd] in E. eapply IH; eassumption.
  - intros _ b E. discriminate.
  - intros e _ b E. discriminate.
  - intros c tl IH W b E. rewrite wf_1rest_R1Elif in W. cbn [r1_bd] in E. eapply IH; eassumption.
  - intros bl ec b0 W b E. rewrite wf_1rest_R1NlElse in W. destruct W as (_ & Wb).
    cbn [r1_bd] in E. inversion E; subst. apply wf_body_col; exact Wb.
  - intros bl ec c tl IH W b E. rewrite wf_1rest_R1NlElif in W. destruct W as (_ & Wt).
    cbn [r1_bd] in E. eapply IH; eassumption.
Qed.
Lemma wf_arms_bd off prev a : wf_arms off prev a -> off < arms_bd a.
Proof.
  revert prev. induction a as [bc p b|bc p b bl r IH]; intros prev; cbn [wf_arms arms_bd].
  - intros (_ & _ & H). apply wf_body_col; exact H.
  - intros (_ & _ & _ & _ & H). eapply IH; exact H.
Qed.
Lemma wf_sarms_bd off prev a : wf_sarms off prev a -> off < sarms_bd a.
Proof.
  revert prev. induction a as [bc fin b|bc lit b bl r IH]; intros prev; cbn [wf_sarms sarms_bd].
  - intros (_ & _ & H). apply wf_body_col; exact H.
  - intros (_ & _ & H). eapply IH; exact H.
Qed.
Lemma wf_term_bd off t b : wf_term off t -> term_bd t = Some b -> off < b.
Proof.
  destruct t as [a l|cd tl|tg b0 arms|tg b0 arms]; cbn [wf_term term_bd]; try discriminate.
  - intros W E. eapply (proj1 (wf_if_bd off)); eassumption.
  - intros (_ & H) E. inversion E; subst. eapply wf_arms_bd; exact H.
  - intros (_ & H) E. inversion E; subst. eapply wf_sarms_bd; exact H.
Qed.
Lemma wf_expr_bd off e b : wf_expr off e -> expr_bd e = Some b -> off < b.
Proof.
  induction e as [t|a l brk o e IH]; cbn [wf_expr expr_bd].
  - apply wf_term_bd.
  - intros (_ & _ & _ & H). apply IH; exact H.
Qed.
Lemma wf_stmt_bd off s b : wf_stmt off s -> stmt_bd s = Some b -> off < b.
Proof.
  destruct s as [x nl e|x y zs nl e|f p ps bd|e]; cbn [wf_stmt stmt_bd].
  - apply wf_expr_bd.
  - apply wf_expr_bd.
  - intros H E. inversion E; subst. apply wf_body_col; exact H.
  - apply wf_expr_bd.
Qed.

(* the contract of the last statement of a block follows from the block's *)
Lemma bfol_efol cb s k : wf_stmt cb s -> bfol cb (stmt_io s) k -> efol cb (stmt_bd s) (stmt_tm s) (stmt_io s) k.
Proof.
  intros W (E & NE & H). split; [exact E|]. split; [exact NE|]. destruct (skip_eol k) as [|[t c'] r]; [exact I|].
  destruct H as (N & C & IO). split; [exact N|]. split; [|split; [|exact IO]].
  - intros b Hb. destruct C as [C|C]; [left; exact C|right]. pose proof (wf_stmt_bd cb s b W Hb). lia.
  - intros _ Ht. destruct C as [C|C]; [|exact C]. subst t. destruct Ht as [Ht|[Ht|Ht]]; discriminate.
Qed.

Lemma wf_rest_last c s r : wf_rest c s r -> last_is_expr (er_stmt s :: er_rest r) = true.
Proof.
  revert s. induction r as [|bl c' s' r IH]; intros s; cbn [wf_rest er_rest].
  - destruct s; cbn; intros H; try contradiction; reflexivity.
  - intros (_ & _ & _ & H). specialize (IH s' H). unfold last_is_expr in *. cbn [last] in *.
    destruct (er_rest r); exact IH.
Qed.

(* ---------------------------------------------------------------- the inversion theorem *)
Definition Pa (a : latom) := forall off c k, wf_atom off a -> PA off (r_atom inner c a ++ k) (er_atom a) k.
(* the elements after the first one, up to and including the closing token *)
Definition Pq (q : lseq) := forall off k bd cl kk, wf_seq off k bd q cl ->
  exists c2,
    match k with
    | GPar => PCM off (aft bd (r_seq inner k q ++ r_gclose inner k cl ++ kk)) (er_seq q) ((TRP, c2) :: kk)
    | GSlice => PSM off (aft bd (r_seq inner k q ++ r_gclose inner k cl ++ kk)) (er_seq q) ((TRS, c2) :: kk)
    | GRec =>
        match q with
        | QNil => aft bd (r_gclose inner k cl ++ kk) = (TRB, c2) :: kk
        | QCons sb f c e more =>
            exists c1, aft bd (r_seq inner k q ++ r_gclose inner k cl ++ kk) =
                       (TSEMI, c1) :: r_fld inner c f ++ r_expr inner (fld_col inner c f) e ++ r_seq inner k more ++ r_gclose inner k cl ++ kk /\
            PFL off (r_fld inner c f ++ r_expr inner (fld_col inner c f) e ++ r_seq inner k more ++ r_gclose inner k cl ++ kk)
                (er_fseq q) ((TRB, c2) :: kk)
        end
    end.
Definition Pas (l : latoms) := forall off a c k, Pa a -> wf_atom off a -> wf_atoms off l -> end_of_term k = true ->
  PAS off (r_atom inner c a ++ r_atoms inner l ++ k) (er_atom a :: er_atoms l) k.
Definition Pt (t : lterm) := forall off c k, wf_term off t -> tfol off t k ->
  PT off (r_term inner c t ++ k) (er_term t) (aft (term_bd t) k).
Definition Ptail (tl : liftail) := forall off ts cond c1 k,
  wf_tail off tl -> efol off (tail_bd tl) (tail_tm tl) (tail_io tl) k ->
  PE off ts cond ((TTHEN, c1) :: r_tail inner tl ++ k) ->
  PIF off ts (er_tail cond tl) (aft (tail_bd tl) k).
Definition Pif (r : lifrest) := forall off prev ts cond c1 c2 r2 tb k,
  wf_ifrest off prev r -> efol off (ifrest_bd (bcol prev) r) (ifrest_tm r) (ifrest_io r) k ->
  PE off ts cond ((TTHEN, c1) :: (TEOL, c2) :: r2) ->
  PB off (skip_eol ((TEOL, c2) :: r2)) tb (skip_eol (r_ifrest inner r ++ k)) ->
  PIF off ts (EIf cond tb (er_ifrest r)) (aft (ifrest_bd (bcol prev) r) k).
Definition P1 (r : l1rest) := forall off ts cond c1 t2 c2 r2 te k,
  wf_1rest off r -> efol off (r1_bd r) (r1_tm r) (r1_io r) k ->
  PE off ts cond ((TTHEN, c1) :: (t2, c2) :: r2) -> t2 <> TEOL ->
  PE off ((t2, c2) :: r2) te (r_1rest inner r ++ k) ->
  PIF off ts (EIf cond (Blk [SExpr te]) (er_1rest r)) (aft (r1_bd r) k).
Definition Pbody (b : lbody) := forall off k, wf_body off b -> bfol (body_col b) (body_io b) k ->
  PB off (skip_eol (r_body inner b ++ k)) (er_body b) (skip_eol k).
Definition Pe (e : lexpr) :=
  (forall off c k, wf_expr off e -> efol off (expr_bd e) (expr_tm e) (expr_io e) k ->
     PE off (r_expr inner c e ++ k) (er_expr e) (aft (expr_bd e) k)) /\
  (forall off cur o c0 c k ts, wf_expr off e -> efol off (expr_bd e) (expr_tm e) (expr_io e) k ->
     skip_eol ts = (TOP o, c0) :: r_expr inner c e ++ k ->
     PBA off cur ts (er_cont cur o e) (aft (expr_bd e) k)).
Definition Ps (s : lstmt) := forall off c k, wf_stmt off s -> efol off (stmt_bd s) (stmt_tm s) (stmt_io s) k ->
  PS off (r_stmt inner c s ++ k) (er_stmt s) (aft (stmt_bd s) k).
Definition Pb (b : lblock) := forall off k, wf_block off b -> bfol (bcol b) (block_io b) k ->
  PB off (r_block inner b ++ k) (er_block b) (skip_eol k).
Definition Pr (r : lrest) := forall cb c s k, Ps s -> wf_stmt cb s -> wf_rest cb s r -> bfol cb (rest_io (stmt_io s) r) k ->
  PSS cb (r_stmt inner c s ++ r_rest inner r ++ k) (er_stmt s :: er_rest r) (skip_eol k).
Definition Parms (a : larms) := forall off prev k, wf_arms off prev a -> efol off (Some (arms_bd a)) true (arms_io a) k ->
  PUR off (r_arms inner a ++ k) (er_arms a) (skip_eol k) /\
  (forall bc p b, a = MLast bc p b -> PRL off (r_arms inner a ++ k) (Rule (er_pat p) (er_body b)) (skip_eol k)).
Definition Psarms (a : lsarms) := forall off prev k, wf_sarms off prev a -> efol off (Some (sarms_bd a)) false (sarms_io a) k ->
  match a with
  | SCons _ _ _ _ _ => PSR off (r_sarms inner a ++ k) (er_sarms a) (skip_eol k)
  | SLast _ _ _ => exists x, er_sarms a = [x] /\ PRL off (r_sarms inner a ++ k) x (skip_eol k)
  end.

Scheme latom_m := Induction for latom Sort Prop
  with lseq_m := Induction for lseq Sort Prop
  with latoms_m := Induction for latoms Sort Prop
  with lterm_m := Induction for lterm Sort Prop
  with liftail_m := Induction for liftail Sort Prop
  with lifrest_m := Induction for lifrest Sort Prop
  with l1rest_m := Induction for l1rest Sort Prop
  with lbody_m := Induction for lbody Sort Prop
  with lexpr_m := Induction for lexpr Sort Prop
  with lstmt_m := Induction for lstmt Sort Prop
  with lblock_m := Induction for lblock Sort Prop
  with lrest_m := Induction for lrest Sort Prop
  with larms_m := Induction for larms Sort Prop
  with lsarms_m := Induction for lsarms Sort Prop.
Combined Scheme l_mutind from latom_m, lseq_m, latoms_m, lterm_m, liftail_m, lifrest_m, l1rest_m, lbody_m, lexpr_m, lstmt_m, lblock_m, lrest_m, larms_m, lsarms_m.

Lemma span_pat p c r :
  span_until is_arrow (r_pat inner p ++ (TARROW, c) :: r) = (er_pat p, (TARROW, c) :: r).
Proof. destruct p as [cn [v|]|]; reflexivity. Qed.

Lemma r_pat_first_not_default bc p r :
  not_default p -> is_default_mr ((TBAR, bc) :: r_pat inner p ++ r) = false /\ is_slit_rule ((TBAR, bc) :: r_pat inner p ++ r) = false.
Proof. destruct p as [cn [v|]|]; cbn; intros H; try contradiction; split; reflexivity. Qed.

Lemma r_arms_shape a k : exists bc p r, r_arms inner a ++ k = (TBAR, bc) :: r_pat inner p ++ r /\
  match a with MLast bc' p' _ => bc' = bc /\ p' = p | MCons bc' p' _ _ _ => bc' = bc /\ p' = p end.
Proof.
  destruct a as [bc p b|bc p b bl r]; cbn [r_arms]; exists bc, p; eexists; (split; [|split; reflexivity]);
  cbn [app]; rewrite <- app_assoc; reflexivity.
Qed.

(* the contract of a then-block followed by the rest of the if *)
Lemma then_block_fol off t r k :
  wf_ifrest off t r -> efol off (ifrest_bd (bcol t) r) (ifrest_tm r) (ifrest_io r) k ->
  bfol (bcol t) (block_io t) (r_ifrest inner r ++ k).
Proof.
  intros Wr F. destruct r as [|bl ec b|bl ec cd' tl'].
  - rewrite r_ifrest_IEnd. cbn [app]. cbn [ifrest_bd ifrest_io] in F.
    destruct F as (E & NE & F). split; [exact E|]. split; [exact NE|].
    destruct (skip_eol k) as [|[t0 c0] r0]; [exact I|]. destruct F as (N & B & _ & IO).
    split; [exact N|]. split; [apply B; reflexivity|]. intros _. apply IO. reflexivity.
  - rewrite wf_ifrest_IElse in Wr. destruct Wr as (L & IOt & _).
    split; [reflexivity|]. split; [rewrite r_ifrest_IElse; exact I|].
    rewrite r_ifrest_IElse, <- app_assoc, skip_nl. cbn [app skip_eol].
    split; [reflexivity|]. split; [right; exact L|]. rewrite IOt. discriminate.
  - rewrite wf_ifrest_IElif in Wr. destruct Wr as (L & IOt & _).
    split; [reflexivity|]. split; [rewrite r_ifrest_IElif; exact I|].
    rewrite r_ifrest_IElif, <- app_assoc, skip_nl. cbn [app skip_eol].
    split; [reflexivity|]. split; [right; exact L|]. rewrite IOt. discriminate.
Qed.

(* what follows a same-line then-body *)
Lemma r1rest_fol off r k : efol off (r1_bd r) (r1_tm r) (r1_io r) k ->
  end_of_term (r_1rest inner r ++ k) = true /\ nobin (skip_eol (r_1rest inner r ++ k)).
Proof.
  intros F. destruct r as [|e|cd tl|bl ec b|bl ec cd tl].
  - rewrite r_1rest_R1End. cbn [app]. split; [apply F|eapply efol_nobin; exact F].
  - rewrite r_1rest_R1Else. split; reflexivity.
  - rewrite r_1rest_R1Elif. split; reflexivity.
  - rewrite r_1rest_R1NlElse, <- app_assoc, skip_nl. split; reflexivity.
  - rewrite r_1rest_R1NlElif, <- app_assoc, skip_nl. split; reflexivity.
Qed.

(* after an element: the separator or the closing token *)
Lemma aft_sep k bd sb rest : sep_ok bd sb -> exists c1, aft bd (r_sep inner k sb ++ rest) = (g_sep k, c1) :: rest.
Proof.
  destruct bd as [b|], sb as [[bl c1]|]; cbn [sep_ok]; intros H; try contradiction.
  - exists c1. cbn [aft r_sep]. rewrite <- app_assoc, skip_nl. cbn [app]. apply skip_eol_nonEOL. destruct k; discriminate.
  - exists inner. reflexivity.
Qed.
Lemma aft_close k bd cl rest : close_ok k bd cl -> exists c2, aft bd (r_gclose inner k cl ++ rest) = (g_close k, c2) :: rest.
Proof.
  intros H. destruct bd as [b|].
  - destruct cl as [[bl c1]|].
    + exists c1. cbn [aft r_gclose]. rewrite <- app_assoc, skip_nl. cbn [app]. apply skip_eol_nonEOL. destruct k; discriminate.
    + exists inner. cbn [aft r_gclose app]. apply skip_eol_nonEOL. destruct k; discriminate.
  - destruct cl as [[bl c1]|]; [destruct k; contradiction|]. exists inner. reflexivity.
Qed.

Lemma elem_fol off k e more cl kk :
  wf_seq off k (expr_bd e) more cl ->
  efol off (expr_bd e) (expr_tm e) (expr_io e) (r_seq inner k more ++ r_gclose inner k cl ++ kk).
Proof.
  intros W.
  assert (G : forall t0 sb rest, (t0 = g_sep k \/ t0 = g_close k) ->
              (match expr_bd e, sb with None, None => True | Some b, Some (_, c) => c < b \/ t0 = TRP | Some b, None => t0 = TRP | None, Some _ => False end) ->
              efol off (expr_bd e) (expr_tm e) (expr_io e)
                   (match sb with None => [(t0, inner)] | Some (bl, c) => nl bl ++ [(t0, c)] end ++ rest)).
  { intros t0 sb rest T H.
    assert (NB : is_binop t0 = false /\ end_of_term ((t0, inner) :: rest) = true /\ ~ takes t0 /\ noelse t0 /\ t0 <> TEOL /\ t0 <> TELSE /\ t0 <> TELIF).
    { destruct T as [-> | ->]; destruct k; cbn; repeat split; try discriminate; intros [X|[X|X]]; discriminate. }
    destruct NB as (N1 & N2 & N3 & N4 & N5 & N6 & N7).
    destruct sb as [[bl c]|].
    - split; [reflexivity|]. split; [exact I|]. rewrite <- app_assoc, skip_nl. cbn [app].
      rewrite (skip_eol_nonEOL _ _ _ N5). split; [exact N1|]. split; [|split].
      + intros b Hb. rewrite Hb in H. destruct H as [H|H]; [right; exact H|left; exact H].
      + intros _ X. contradiction.
      + intros _. exact N4.
    - cbn [app]. split; [destruct t0; cbn in *; try reflexivity; try discriminate|].
      split; [destruct t0; try exact I; congruence|].
      rewrite (skip_eol_nonEOL _ _ _ N5). split; [exact N1|]. split; [|split].
      + intros b Hb. rewrite Hb in H. left. exact H.
      + intros _ X. contradiction.
      + intros _. exact N4. }
  destruct more as [|sb f c e' more'].
  - rewrite wf_seq_QNil in W. cbn [r_seq app]. unfold r_gclose. apply G; [right; reflexivity|].
    unfold close_ok, sep_ok in W. destruct k, (expr_bd e), cl as [[? ?]|]; cbn in *; try contradiction; auto.
  - rewrite wf_seq_QCons in W. destruct W as (S & _). rewrite r_seq_QCons. unfold r_sep. rewrite <- !app_assoc.
    apply G; [left; reflexivity|]. unfold sep_ok in S. destruct (expr_bd e), sb as [[? ?]|]; cbn in *; try contradiction; auto.
Qed.

Lemma PT_app a l off c k :
  Pa a -> Pas l -> wf_atom off a -> wf_atoms off l -> (is_slice a = true -> l = ANil) -> end_of_term k = true ->
  PT off (r_atom inner c a ++ r_atoms inner l ++ k) (EApp (er_atom a :: er_atoms l)) k.
Proof.
  intros HA HL Wa Wl SL E.
  destruct (r_atom_head c a (r_atoms inner l ++ k)) as (t0 & r & E0 & H0).
  destruct (is_slice a) eqn:IS.
  - rewrite (SL eq_refl) in *. cbn [r_atoms er_atoms app] in *. subst t0.
    pose proof (HA off c k Wa) as P. rewrite E0 in *. apply PT_slice. exact P.
  - pose proof (HL off a c k HA Wa Wl E) as P. rewrite E0 in *. apply PT_atoms; [exact H0|exact P].
Qed.

Theorem inversion :
  (forall a, Pa a) /\ (forall q, Pq q) /\ (forall l, Pas l) /\ (forall t, Pt t) /\ (forall tl, Ptail tl) /\ (forall r, Pif r) /\
  (forall r, P1 r) /\ (forall b, Pbody b) /\
  (forall e, Pe e) /\ (forall s, Ps s) /\ (forall b, Pb b) /\ (forall r, Pr r) /\ (forall a, Parms a) /\
  (forall a, Psarms a).
Proof.
  apply l_mutind.
  - (* LA *) intros a off c k _. apply PA_ta.
  - (* LS *) intros a off c k _. apply PA_str.
  - (* LLam *)
    intros ps b IHb cl off c k W. rewrite wf_atom_LLam in W. rewrite r_atom_LLam, er_atom_LLam. norm_app.
    set (K := r_close inner cl ++ k).
    assert (SK : exists c2, skip_eol K = (TRP, c2) :: k /\ end_of_term K = true /\ nohd_else K).
    { unfold K. destruct cl as [[bl c2]|]; cbn [r_close].
      - exists c2. rewrite <- app_assoc. rewrite skip_nl. repeat split.
      - exists inner. repeat split. }
    destruct SK as (c2 & SK & EK & NK).
    apply PA_par with (c2 := c2); [discriminate|].
    eapply PE_intro.
    + eapply PT_fun; [apply span_atoks; [reflexivity|reflexivity]|].
      fold K. apply IHb; [exact W|]. split; [exact EK|]. split; [exact NK|]. rewrite SK.
      split; [reflexivity|]. split; [left; reflexivity|]. intros _. split; discriminate.
    + rewrite SK. apply PBA_stop. cbn. reflexivity.
  - (* LUnit *) intros off c k _. apply PA_unit.
  - (* LGroup *)
    intros g f e (IHe & _) more IHq cl off c k W. rewrite wf_atom_LGroup in W. destruct W as (Fo & We & Wq).
    rewrite r_atom_LGroup, er_atom_LGroup. cbn [app]. rewrite <- !app_assoc.
    pose proof (elem_fol off g e more cl k Wq) as F.
    pose proof (IHe off (fld_col inner inner f) _ We F) as PEe.
    destruct (IHq off g (expr_bd e) cl k Wq) as (c2 & Q).
    destruct g; cbn [g_open].
    + (* tuple *) destruct f; [contradiction|]. cbn [r_fld fld_col app] in *.
      destruct (r_expr_head inner e (r_seq inner GPar more ++ r_gclose inner GPar cl ++ k)) as (t0 & r0 & E0 & H0).
      rewrite E0 in *. eapply PA_tuple; [apply (expr_head_facts t0 H0)|exact PEe|exact Q].
    + (* slice *) destruct f; [contradiction|]. cbn [r_fld fld_col app] in *.
      eapply PA_slice; [exact PEe|exact Q].
    + (* record *) destruct f as [[[x n1] n2]|]; [|contradiction].
      apply PA_rec with (c2 := c2).
      assert (FN : exists c1, field_name x (match n1 with None => [(TEQ, inner)] | Some (bl, c1) => nl bl ++ [(TEQ, c1)] end ++
                     match n2 with None => [] | Some (bl, _) => nl bl end ++
                     r_expr inner (fld_col inner inner (Some (x, n1, n2))) e ++ r_seq inner GRec more ++ r_gclose inner GRec cl ++ k) =
                   ([TA x], (TEQ, c1) :: match n2 with None => [] | Some (bl, _) => nl bl end ++
                     r_expr inner (fld_col inner inner (Some (x, n1, n2))) e ++ r_seq inner GRec more ++ r_gclose inner GRec cl ++ k)).
      { unfold field_name. destruct n1 as [[bl c1]|].
        - exists c1. rewrite <- app_assoc, skip_nl. reflexivity.
        - exists inner. reflexivity. }
      destruct FN as (c1 & FN).
      assert (SK : skip_eol (match n2 with None => [] | Some (bl, _) => nl bl end ++
                     r_expr inner (fld_col inner inner (Some (x, n1, n2))) e ++ r_seq inner GRec more ++ r_gclose inner GRec cl ++ k) =
                   r_expr inner (fld_col inner inner (Some (x, n1, n2))) e ++ r_seq inner GRec more ++ r_gclose inner GRec cl ++ k).
      { destruct n2 as [[bl cc]|]; [rewrite skip_nl|]; apply skip_expr. }
      cbn [r_fld app]. rewrite <- !app_assoc. cbn [er_fld].
      destruct more as [|sb f' c' e' more'].
      * cbn [r_seq app er_fseq] in *. rewrite Q in PEe.
        eapply PFL_last; [exact FN|]. rewrite SK. exact PEe.
      * destruct Q as (c3 & EQ & PF). rewrite EQ in PEe.
        eapply PFL_cons; [exact FN| |exact PF]. rewrite SK. exact PEe.
  - (* QNil *)
    intros off g bd cl kk W. rewrite wf_seq_QNil in W. cbn [r_seq app er_seq].
    destruct (aft_close g bd cl kk W) as (c2 & E). exists c2. rewrite E.
    destruct g; cbn [g_close]; [apply PCM_nil; exact I|apply PSM_nil; exact I|reflexivity].
  - (* QCons *)
    intros sb f c e (IHe & _) more IHq off g bd cl kk W. rewrite wf_seq_QCons in W. destruct W as (So & Fo & We & Wq).
    pose proof (elem_fol off g e more cl kk Wq) as F.
    pose proof (IHe off (fld_col inner c f) _ We F) as PEe.
    destruct (IHq off g (expr_bd e) cl kk Wq) as (c2 & Q). exists c2.
    rewrite r_seq_QCons, <- !app_assoc.
    destruct (aft_sep g bd sb (r_fld inner c f ++ r_expr inner (fld_col inner c f) e ++ r_seq inner g more ++ r_gclose inner g cl ++ kk) So) as (c1 & E).
    rewrite E. destruct g; cbn [g_sep].
    + destruct f; [contradiction|]. cbn [r_fld fld_col app] in *. rewrite er_seq_QCons.
      eapply PCM_cons; [exact PEe|exact Q].
    + destruct f; [contradiction|]. cbn [r_fld fld_col app] in *. rewrite er_seq_QCons.
      eapply PSM_cons; [exact PEe|exact Q].
    + destruct f as [[[x n1] n2]|]; [|contradiction]. exists c1. split; [reflexivity|].
      assert (FN : exists c4, field_name x (match n1 with None => [(TEQ, inner)] | Some (bl, c1) => nl bl ++ [(TEQ, c1)] end ++
                     match n2 with None => [] | Some (bl, _) => nl bl end ++
                     r_expr inner (fld_col inner c (Some (x, n1, n2))) e ++ r_seq inner GRec more ++ r_gclose inner GRec cl ++ kk) =
                   ([TA x], (TEQ, c4) :: match n2 with None => [] | Some (bl, _) => nl bl end ++
                     r_expr inner (fld_col inner c (Some (x, n1, n2))) e ++ r_seq inner GRec more ++ r_gclose inner GRec cl ++ kk)).
      { unfold field_name. destruct n1 as [[bl c4]|].
        - exists c4. rewrite <- app_assoc, skip_nl. reflexivity.
        - exists inner. reflexivity. }
      destruct FN as (c4 & FN).
      assert (SK : skip_eol (match n2 with None => [] | Some (bl, _) => nl bl end ++
                     r_expr inner (fld_col inner c (Some (x, n1, n2))) e ++ r_seq inner GRec more ++ r_gclose inner GRec cl ++ kk) =
                   r_expr inner (fld_col inner c (Some (x, n1, n2))) e ++ r_seq inner GRec more ++ r_gclose inner GRec cl ++ kk).
      { destruct n2 as [[bl cc]|]; [rewrite skip_nl|]; apply skip_expr. }
      cbn [r_fld app]. rewrite <- !app_assoc. rewrite er_fseq_QCons. cbn [er_fld].
      destruct more as [|sb' f' c' e' more'].
      * cbn [r_seq app er_fseq] in *. rewrite Q in PEe.
        eapply PFL_last; [exact FN|]. rewrite SK. exact PEe.
      * destruct Q as (c3 & EQ & PF). rewrite EQ in PEe.
        eapply PFL_cons; [exact FN| |exact PF]. rewrite SK. exact PEe.
  - (* ANil *) intros off a c k PAa Wa _ E. cbn [r_atoms er_atoms app]. apply PAS_one; [apply PAa; exact Wa|exact E].
  - (* ACons *)
    intros c' a' IHa' l' IHl' off a c k PAa Wa Wl E. rewrite wf_atoms_ACons in Wl. destruct Wl as (Wa' & Wl').
    rewrite r_atoms_ACons, er_atoms_ACons. norm_app.
    eapply PAS_cons; [apply PAa; exact Wa| |].
    + destruct (r_atom_head_e c' a' (r_atoms inner l' ++ k)) as (t0 & r & E0 & _ & H0). rewrite E0. exact H0.
    + apply IHl'; assumption.
  - (* LApp *)
    intros a IHa l IHl off c k W F. rewrite wf_term_LApp in W. destruct W as (Wa & Wl & SL). cbn [tfol] in F.
    rewrite r_term_LApp, er_term_LApp. cbn [term_bd aft]. rewrite <- app_assoc.
    apply PT_app; assumption.
  - (* LIf *)
    intros cd tl IHtl off c k W F. rewrite wf_term_LIf in W. cbn [tfol term_bd term_tm term_io] in F.
    rewrite r_term_LIf, er_term_LIf. cbn [term_bd]. norm_app. apply PT_if.
    eapply IHtl with (c1 := inner); [exact W|exact F|].
    apply PE_sx; [reflexivity|cbn; reflexivity].
  - (* LMatch *)
    intros tg b0 arms IHa off c k W F. rewrite wf_term_LMatch in W. destruct W as (Wd & Wa). cbn [tfol term_bd term_tm term_io] in F.
    rewrite r_term_LMatch, er_term_LMatch. cbn [term_bd aft]. norm_app.
    eapply PT_match with (c1 := inner).
    + apply PE_sx; [reflexivity|cbn; reflexivity].
    + rewrite skip_nl.
      destruct (r_arms_shape arms k) as (bc & p & r & Es & Hs).
      assert (ND : not_default p) by (destruct arms; destruct Hs as (_ & <-); exact Wd).
      destruct (r_pat_first_not_default bc p r ND) as (D1 & D2).
      rewrite Es. rewrite (skip_eol_nonEOL TBAR bc _ ltac:(discriminate)).
      apply PRS_union; [exact D1|exact D2|]. rewrite <- Es.
      apply (IHa off None k Wa F).
  - (* LSMatch *)
    intros tg b0 arms IHa off c k W F. rewrite wf_term_LSMatch in W. destruct W as (Wd & Wa). cbn [tfol term_bd term_tm term_io] in F.
    rewrite r_term_LSMatch, er_term_LSMatch. cbn [term_bd aft]. norm_app.
    eapply PT_match with (c1 := inner).
    + apply PE_sx; [reflexivity|cbn; reflexivity].
    + rewrite skip_nl. pose proof (IHa off None k Wa F) as P.
      destruct arms as [bc fin b|bc lit b bl r]; [contradiction|].
      rewrite r_sarms_SCons in *. cbn [app] in *.
      rewrite (skip_eol_nonEOL TBAR bc _ ltac:(discriminate)).
      apply PRS_string; [reflexivity|reflexivity|exact P].
  - (* TMulti *)
    intros b1 t IHt r IHr off ts cond c1 k W F PEc. rewrite wf_tail_TMulti in W. destruct W as (Wt & Wr).
    cbn [tail_bd tail_tm tail_io] in F. rewrite er_tail_TMulti. cbn [tail_bd].
    rewrite r_tail_TMulti in PEc. revert PEc. norm_app. unfold Layout.nl at 1. cbn [app]. intros PEc.
    eapply IHr; [exact Wr|exact F|exact PEc|].
    cbn [skip_eol]. rewrite skip_eols, skip_block. apply IHt; [exact Wt|]. apply (then_block_fol off t r k Wr F).
  - (* TOne *)
    intros t r IHr off ts cond c1 k W F PEc. rewrite wf_tail_TOne in W.
    cbn [tail_bd tail_tm tail_io] in F. rewrite er_tail_TOne. cbn [tail_bd].
    rewrite r_tail_TOne in PEc. revert PEc. norm_app. intros PEc.
    destruct (r_sx_head inner t (r_1rest inner r ++ k)) as (a2 & r2 & E2). rewrite E2 in PEc.
    destruct (r1rest_fol off r k F) as (EK & NK).
    eapply IHr; [exact W|exact F|exact PEc|discriminate|].
    rewrite <- E2. apply PE_sx; assumption.
  - (* IEnd *)
    intros off prev ts cond c1 c2 r2 tb k _ F PEc PBt. rewrite r_ifrest_IEnd in PBt. cbn [app] in PBt. cbn [er_ifrest].
    eapply PIF_none; [exact PEc|exact PBt|]. rewrite skip_eol_idem.
    cbn [ifrest_io] in F. destruct F as (_ & _ & F). destruct (skip_eol k) as [|[t0 c0] r0]; [exact I|].
    destruct F as (_ & _ & _ & IO). destruct (IO eq_refl) as (N1 & N2). destruct t0; try exact I; congruence.
  - (* IElse *)
    intros bl ec b IHb off prev ts cond c1 c2 r2 tb k W F PEc PBt.
    rewrite wf_ifrest_IElse in W. destruct W as (_ & _ & Wb). cbn [ifrest_bd ifrest_io] in F. rewrite er_ifrest_IElse.
    rewrite r_ifrest_IElse, <- app_assoc, skip_nl in PBt. cbn [app] in PBt.
    rewrite (skip_eol_nonEOL TELSE ec _ ltac:(discriminate)) in PBt.
    eapply PIF_else; [exact PEc|exact PBt| |].
    + apply skip_eol_nonEOL. discriminate.
    + apply IHb; [exact Wb|]. eapply efol_bfol; exact F.
  - (* IElif *)
    intros bl ec cd tl IHtl off prev ts cond c1 c2 r2 tb k W F PEc PBt.
    rewrite wf_ifrest_IElif in W. destruct W as (_ & _ & Wt). cbn [ifrest_bd ifrest_tm ifrest_io] in F. rewrite er_ifrest_IElif.
    cbn [ifrest_bd].
    rewrite r_ifrest_IElif, <- app_assoc, skip_nl in PBt. cbn [app] in PBt.
    rewrite (skip_eol_nonEOL TELIF ec _ ltac:(discriminate)) in PBt.
    eapply PIF_elif; [exact PEc|exact PBt| |].
    + apply skip_eol_nonEOL. discriminate.
    + norm_app. eapply IHtl with (c1 := inner); [exact Wt|exact F|].
      apply PE_sx; [reflexivity|cbn; reflexivity].
  - (* R1End *)
    intros off ts cond c1 t2 c2 r2 te k _ F PEc N PEt. rewrite r_1rest_R1End in PEt. cbn [app] in PEt.
    cbn [r1_bd r1_tm r1_io] in F. cbn [er_1rest r1_bd aft].
    eapply PIF_to1; [exact PEc|destruct t2; try reflexivity; congruence|].
    eapply PIF1_nl; [exact PEt|apply F|].
    apply PNL_none. intros Hn. apply andb_prop in Hn. destruct Hn as (_ & Hc).
    destruct F as (_ & _ & F). destruct (skip_eol k) as [|[t0 c0] r0]; [exact I|].
    destruct F as (_ & _ & TM & _). cbn [col_inside] in Hc. apply Nat.leb_le in Hc.
    destruct t0; try exact I.
    * specialize (TM eq_refl (or_intror (or_introl eq_refl))). lia.
    * specialize (TM eq_refl (or_intror (or_intror eq_refl))). lia.
  - (* R1Else *)
    intros e off ts cond c1 t2 c2 r2 te k _ F PEc N PEt. rewrite r_1rest_R1Else in PEt. cbn [app] in PEt.
    cbn [r1_bd r1_tm r1_io] in F. rewrite er_1rest_R1Else. cbn [r1_bd aft].
    eapply PIF_to1; [exact PEc|destruct t2; try reflexivity; congruence|].
    eapply PIF1_else; [exact PEt|]. apply PE_sx; [apply F|eapply efol_nobin; exact F].
  - (* R1Elif *)
    intros cd tl IHtl off ts cond c1 t2 c2 r2 te k W F PEc N PEt. rewrite wf_1rest_R1Elif in W.
    rewrite r_1rest_R1Elif in PEt. cbn [app] in PEt. rewrite <- app_assoc in PEt. cbn [app] in PEt.
    cbn [r1_bd r1_tm r1_io] in F. rewrite er_1rest_R1Elif. cbn [r1_bd].
    eapply PIF_to1; [exact PEc|destruct t2; try reflexivity; congruence|].
    eapply PIF1_elif; [exact PEt|].
    eapply IHtl with (c1 := inner); [exact W|exact F|].
    apply PE_sx; [reflexivity|cbn; reflexivity].
  - (* R1NlElse *)
    intros bl ec b IHb off ts cond c1 t2 c2 r2 te k W F PEc N PEt. rewrite wf_1rest_R1NlElse in W. destruct W as (L & Wb).
    cbn [r1_bd r1_tm r1_io] in F. rewrite er_1rest_R1NlElse. cbn [r1_bd aft].
    eapply PIF_to1; [exact PEc|destruct t2; try reflexivity; congruence|].
    eapply PIF1_nl; [exact PEt|rewrite r_1rest_R1NlElse; exact I|].
    eapply PNL_else with (ec := ec); [rewrite r_1rest_R1NlElse; reflexivity| |exact L|].
    + rewrite r_1rest_R1NlElse, <- app_assoc, skip_nl. cbn [app]. apply skip_eol_nonEOL. discriminate.
    + apply IHb; [exact Wb|]. eapply efol_bfol; exact F.
  - (* R1NlElif *)
    intros bl ec cd tl IHtl off ts cond c1 t2 c2 r2 te k W F PEc N PEt. rewrite wf_1rest_R1NlElif in W. destruct W as (L & Wt).
    cbn [r1_bd r1_tm r1_io] in F. rewrite er_1rest_R1NlElif. cbn [r1_bd].
    eapply PIF_to1; [exact PEc|destruct t2; try reflexivity; congruence|].
    eapply PIF1_nl; [exact PEt|rewrite r_1rest_R1NlElif; exact I|].
    eapply PNL_elif with (ec := ec); [rewrite r_1rest_R1NlElif; reflexivity| |exact L|].
    + rewrite r_1rest_R1NlElif, <- app_assoc, skip_nl. cbn [app]. rewrite <- app_assoc. cbn [app].
      apply skip_eol_nonEOL. discriminate.
    + eapply IHtl with (c1 := inner); [exact Wt|exact F|].
      apply PE_sx; [reflexivity|cbn; reflexivity].
  - (* BInline *)
    intros b IHb off k W F. rewrite wf_body_BInline in W. rewrite r_body_BInline, er_body_BInline, skip_block.
    apply IHb; assumption.
  - (* BNext *)
    intros bl b IHb off k W F. rewrite wf_body_BNext in W. rewrite r_body_BNext, er_body_BNext, <- app_assoc, skip_nl, skip_block.
    apply IHb; assumption.
  - (* LT *)
    intros t IHt. split.
    + intros off c k W F. rewrite wf_expr_LT in W. cbn [expr_bd expr_tm expr_io] in F. rewrite r_expr_LT, er_expr_LT. cbn [expr_bd].
      eapply PE_intro; [apply IHt; [exact W|apply efol_tfol; exact F]|].
      apply PBA_stop. rewrite skip_aft. eapply efol_nobin; exact F.
    + intros off cur o c0 c k ts W F E. rewrite wf_expr_LT in W. cbn [expr_bd expr_tm expr_io] in F. rewrite r_expr_LT in E.
      rewrite er_cont_LT. cbn [expr_bd].
      eapply PBA_op; [exact E|reflexivity|apply IHt; [exact W|apply efol_tfol; exact F]|].
      apply PBA_stop. rewrite skip_aft. eapply efol_nobin; exact F.
  - (* LOp *)
    intros a IHa l IHl brk o' e' (IHe1 & IHe2).
    assert (KS : forall k, exists c0, skip_eol (r_brk inner brk o' ++ r_expr inner inner e' ++ k) = (TOP o', c0) :: r_expr inner inner e' ++ k
                         /\ end_of_term (r_brk inner brk o' ++ r_expr inner inner e' ++ k) = true).
    { intros k. destruct brk as [[bl c0]|]; cbn [r_brk].
      - exists c0. rewrite <- app_assoc, skip_nl. split; reflexivity.
      - exists inner. split; reflexivity. }
    split.
    + intros off c k W F. rewrite wf_expr_LOp in W. destruct W as (Wa & Wl & SL & We). cbn [expr_bd expr_tm expr_io] in F.
      rewrite r_expr_LOp, er_expr_LOp. cbn [expr_bd]. norm_app.
      destruct (KS k) as (c0 & SK & EK).
      eapply PE_intro; [apply PT_app; assumption|].
      eapply IHe2; [exact We|exact F|exact SK].
    + intros off cur o c0 c k ts W F E. rewrite wf_expr_LOp in W. destruct W as (Wa & Wl & SL & We). cbn [expr_bd expr_tm expr_io] in F.
      rewrite r_expr_LOp in E. rewrite er_cont_LOp. cbn [expr_bd]. revert E. norm_app. intros E.
      destruct (KS k) as (c1 & SK & EK).
      eapply PBA_op; [exact E|reflexivity|apply PT_app; assumption|].
      eapply IHe2; [exact We|exact F|exact SK].
  - (* LLet *)
    intros x nl0 e (IHe & _) off c k W F. rewrite wf_stmt_LLet in W. cbn [stmt_bd stmt_tm stmt_io] in F. rewrite er_stmt_LLet. cbn [stmt_bd].
    destruct nl0 as [[bl c']|].
    + rewrite r_stmt_LLet_next. norm_app. eapply PS_let with (c1 := inner); [reflexivity|].
      rewrite skip_nl, skip_expr. apply IHe; assumption.
    + rewrite r_stmt_LLet_same. norm_app. eapply PS_let with (c1 := inner); [reflexivity|].
      rewrite skip_expr. apply IHe; assumption.
  - (* LLetD *)
    intros x y zs nl0 e (IHe & _) off c k W F. rewrite wf_stmt_LLetD in W. cbn [stmt_bd stmt_tm stmt_io] in F.
    rewrite er_stmt_LLetD. cbn [stmt_bd].
    assert (SP : forall rest, span_until is_eq (r_dnames inner zs ++ (TRP, inner) :: (TEQ, inner) :: rest) =
                              (er_dnames zs ++ [TRP], (TEQ, inner) :: rest)).
    { intros rest. induction zs as [|z zs IH]; [reflexivity|]. cbn [r_dnames er_dnames app span_until is_eq orb].
      rewrite IH. reflexivity. }
    destruct nl0 as [[bl c']|].
    + rewrite r_stmt_LLetD_next. norm_app. eapply PS_letv with (c1 := inner).
      * cbn [span_until is_eq orb]. rewrite SP. reflexivity.
      * reflexivity.
      * rewrite skip_nl, skip_expr. apply IHe; assumption.
    + rewrite r_stmt_LLetD_same. norm_app. eapply PS_letv with (c1 := inner).
      * cbn [span_until is_eq orb]. rewrite SP. reflexivity.
      * reflexivity.
      * rewrite skip_expr. apply IHe; assumption.
  - (* LLetFn *)
    intros f p ps b IHb off c k W F. rewrite wf_stmt_LLetFn in W. cbn [stmt_bd stmt_tm stmt_io] in F.
    rewrite r_stmt_LLetFn, er_stmt_LLetFn. cbn [stmt_bd aft]. norm_app.
    eapply PS_letfn with (c1 := inner) (hdr := TA f :: TA p :: map TA ps).
    + cbn [span_until is_eq orb]. rewrite (span_atoks is_eq ps TEQ inner _ ltac:(reflexivity) ltac:(reflexivity)). reflexivity.
    + reflexivity.
    + apply IHb; [exact W|]. eapply efol_bfol; exact F.
  - (* LExpr *)
    intros e (IHe & _) off c k W F. rewrite wf_stmt_LExpr in W. cbn [stmt_bd stmt_tm stmt_io] in F.
    rewrite r_stmt_LExpr, er_stmt_LExpr. cbn [stmt_bd].
    destruct (r_expr_head c e k) as (t0 & r & E0 & H0). pose proof (IHe off c k W F) as P. rewrite E0 in *.
    apply PS_expr; [exact H0|exact P].
  - (* LB *)
    intros c s IHs r IHr off k W F. rewrite wf_block_LB in W. destruct W as (L & Ws & Wr). cbn [bcol] in F. rewrite block_io_LB in F.
    rewrite r_block_LB, er_block_LB, <- app_assoc.
    destruct (r_stmt_head c s (r_rest inner r ++ k)) as (t0 & r0 & E0 & H0).
    pose proof (IHr c c s k IHs Ws Wr F) as P. rewrite E0 in *.
    apply PB_intro; [exact L|exact P|]. eapply wf_rest_last; exact Wr.
  - (* LNil *)
    intros cb c s k PSs Ws _ F. cbn [r_rest er_rest app rest_io] in *.
    pose proof (PSs cb c k Ws (bfol_efol cb s k Ws F)) as P1.
    rewrite <- (skip_aft (stmt_bd s) k).
    apply PSS_one; [exact P1|]. rewrite skip_aft.
    destruct F as (_ & _ & F). destruct (skip_eol k) as [|[t c'] r]; [reflexivity|]. destruct F as (_ & [->|F] & _); cbn [end_of_block].
    + apply orb_true_r.
    + apply orb_true_iff. left. apply Nat.ltb_lt. exact F.
  - (* LCons *)
    intros bl c' s' IHs' r' IHr' cb c s k PSs Ws W F. rewrite wf_rest_LCons in W. destruct W as (Lc & Un & Ws' & Wr').
    rewrite rest_io_LCons in F.
    rewrite r_rest_LCons, er_rest_LCons. norm_app.
    set (tail := r_stmt inner c' s' ++ r_rest inner r' ++ k).
    destruct (r_stmt_head c' s' (r_rest inner r' ++ k)) as (t0 & r0 & E0 & H0). fold tail in E0.
    destruct (stmt_head_facts t0 H0) as (N1 & N2 & N3 & N4).
    assert (Sk : skip_eol (nl bl ++ tail) = @cons ptok (t0, c') r0).
    { rewrite skip_nl, E0. apply skip_eol_nonEOL. exact N1. }
    assert (O : efol cb (stmt_bd s) (stmt_tm s) (stmt_io s) (nl bl ++ tail)).
    { split; [reflexivity|]. split; [exact I|]. rewrite Sk. split; [exact N4|]. split; [|split].
      - intros b Hb. right. rewrite Hb in Un. exact Un.
      - intros _ Ht. destruct (stmt_head_noelse t0 H0). destruct Ht as [Ht|[Ht|Ht]]; congruence.
      - intros _. apply stmt_head_noelse. exact H0. }
    pose proof (PSs cb c _ Ws O) as P1.
    eapply PSS_cons; [exact P1| |].
    + rewrite skip_aft, Sk. cbn [end_of_block]. apply orb_false_iff. split; [apply Nat.ltb_ge; exact Lc|].
      destruct t0; try reflexivity. congruence.
    + rewrite skip_aft, Sk, <- E0. unfold tail. apply IHr'; assumption.
  - (* MLast *)
    intros bc p b IHb off prev k W F. rewrite wf_arms_MLast in W. destruct W as (Lb & _ & Wb). cbn [arms_bd arms_io] in F.
    rewrite r_arms_MLast, er_arms_MLast.
    assert (R : PRL off ((TBAR, bc) :: r_pat inner p ++ (TARROW, inner) :: r_body inner b ++ k) (Rule (er_pat p) (er_body b)) (skip_eol k)).
    { eapply PRL_intro; [apply span_pat|]. apply IHb; [exact Wb|]. eapply efol_bfol; exact F. }
    cbn [app]. rewrite <- app_assoc. cbn [app]. split.
    + apply PUR_last; [exact R|].
      destruct F as (_ & _ & F). destruct (skip_eol k) as [|[t c'] r]; [reflexivity|]. destruct F as (_ & _ & F & _).
      destruct t; try reflexivity. cbn [bar_inside]. apply Nat.leb_gt. apply F; [reflexivity|left; reflexivity].
    + intros bc0 p0 b0 E. inversion E; subst. exact R.
  - (* MCons *)
    intros bc p b IHb bl r IHr off prev k W F. rewrite wf_arms_MCons in W. destruct W as (Lb & _ & ND & Wb & Wr). cbn [arms_bd arms_io] in F.
    rewrite r_arms_MCons, er_arms_MCons. split; [|intros; discriminate].
    cbn [app]. rewrite <- !app_assoc. cbn [app]. rewrite <- !app_assoc.
    set (K := nl bl ++ r_arms inner r ++ k).
    destruct (r_arms_shape r k) as (bc' & p' & r1 & Es & Hs).
    assert (SK : skip_eol K = (TBAR, bc') :: r_pat inner p' ++ r1).
    { unfold K. rewrite skip_nl, Es. apply skip_eol_nonEOL. discriminate. }
    assert (WB : off <= bc' /\ bc' < body_col b).
    { destruct r as [bc2 p2 b2|bc2 p2 b2 bl2 r2]; destruct Hs as (<- & _).
      - rewrite wf_arms_MLast in Wr. destruct Wr as (? & U & _). cbn in U. auto.
      - rewrite wf_arms_MCons in Wr. destruct Wr as (? & U & _). cbn in U. auto. }
    assert (R : PRL off ((TBAR, bc) :: r_pat inner p ++ (TARROW, inner) :: r_body inner b ++ K) (Rule (er_pat p) (er_body b)) (skip_eol K)).
    { eapply PRL_intro; [apply span_pat|]. apply IHb; [exact Wb|]. split; [reflexivity|]. split; [exact I|]. rewrite SK.
      split; [reflexivity|]. split; [right; apply WB|]. intros _. split; discriminate. }
    assert (BI : bar_inside off (skip_eol K) = true).
    { rewrite SK. cbn [bar_inside]. apply Nat.leb_le. apply WB. }
    destruct (IHr off (Some (body_col b)) k Wr F) as (PU & PL).
    destruct p' as [cn v|].
    + (* a further case arm *)
      eapply PUR_more; [exact R|exact BI| |].
      * rewrite SK. destruct v; reflexivity.
      * rewrite skip_eol_idem, SK, <- Es. exact PU.
    + (* the default arm: it is the last one *)
      destruct r as [bc2 p2 b2|bc2 p2 b2 bl2 r2]; destruct Hs as (<- & E2); subst p2.
      * rewrite er_arms_MLast.
        eapply PUR_def; [exact R|exact BI| |].
        -- rewrite SK. reflexivity.
        -- rewrite SK, <- Es. eapply PL. reflexivity.
      * rewrite wf_arms_MCons in Wr. destruct Wr as (_ & _ & ND2 & _). contradiction.
  - (* SLast *)
    intros bc fin b IHb off prev k W F. rewrite wf_sarms_SLast in W. destruct W as (_ & _ & Wb). cbn [sarms_bd sarms_io] in F.
    pose proof (IHb off k Wb (efol_bfol _ _ _ _ _ F)) as PBb.
    destruct fin as [v|].
    + exists (Rule [TA v] (er_body b)). split; [reflexivity|]. rewrite r_sarms_SLast_var. cbn [app].
      eapply PRL_intro with (c1 := inner); [reflexivity|exact PBb].
    + exists (Rule [TUS] (er_body b)). split; [reflexivity|]. rewrite r_sarms_SLast_def. cbn [app].
      eapply PRL_intro with (c1 := inner); [reflexivity|exact PBb].
  - (* SCons *)
    intros bc lit b IHb bl r IHr off prev k W F. rewrite wf_sarms_SCons in W. destruct W as (_ & Wb & Wr). cbn [sarms_bd sarms_io] in F.
    rewrite r_sarms_SCons, er_sarms_SCons. cbn [app]. rewrite <- !app_assoc.
    set (K := nl bl ++ r_sarms inner r ++ k).
    pose proof (IHr off (Some (body_col b)) k Wr F) as PR.
    destruct r as [bc' fin b'|bc' lit' b' bl' r'].
    + (* the closing rule follows *)
      rewrite wf_sarms_SLast in Wr. destruct Wr as (U & IN & _). cbn [under] in U.
      destruct PR as (x & Ex & PLx). rewrite Ex.
      assert (SK : exists t2, skip_eol K = (TBAR, bc') :: (t2, inner) :: (TARROW, inner) :: r_body inner b' ++ k /\
                  (t2 = TUS <-> fin = None) /\ (forall a, t2 <> TSTR a) /\ r_sarms inner (SLast bc' fin b') ++ k = skip_eol K).
      { unfold K. rewrite skip_nl. destruct fin as [v|].
        - exists (TA v). rewrite r_sarms_SLast_var. cbn [app]. rewrite (skip_eol_nonEOL TBAR bc' _ ltac:(discriminate)).
          repeat split; try discriminate; intros; discriminate.
        - exists TUS. rewrite r_sarms_SLast_def. cbn [app]. rewrite (skip_eol_nonEOL TBAR bc' _ ltac:(discriminate)).
          repeat split; try discriminate; intros; discriminate. }
      destruct SK as (t2 & SK & TU & TS & ER).
      assert (R : PRL off ((TBAR, bc) :: (TSTR lit, inner) :: (TARROW, inner) :: r_body inner b ++ K) (Rule [TSTR lit] (er_body b)) (skip_eol K)).
      { eapply PRL_intro with (c1 := inner); [reflexivity|]. apply IHb; [exact Wb|]. split; [reflexivity|]. split; [exact I|]. rewrite SK.
        split; [reflexivity|]. split; [right; exact U|]. intros _. split; discriminate. }
      eapply PSR_last; [exact R| | |].
      * rewrite SK. destruct t2; try reflexivity. exfalso. eapply TS; reflexivity.
      * rewrite SK. cbn [is_default_mr bar_inside].
        destruct t2; try reflexivity. cbn [andb]. rewrite (proj2 (Nat.leb_le off bc') (IN (proj1 TU eq_refl))). reflexivity.
      * rewrite <- ER. exact PLx.
    + (* another literal rule *)
      rewrite wf_sarms_SCons in Wr. destruct Wr as (U & _). cbn [under] in U.
      assert (SK : skip_eol K = r_sarms inner (SCons bc' lit' b' bl' r') ++ k).
      { unfold K. rewrite skip_nl, r_sarms_SCons. cbn [app]. apply skip_eol_nonEOL. discriminate. }
      assert (R : PRL off ((TBAR, bc) :: (TSTR lit, inner) :: (TARROW, inner) :: r_body inner b ++ K) (Rule [TSTR lit] (er_body b)) (skip_eol K)).
      { eapply PRL_intro with (c1 := inner); [reflexivity|]. apply IHb; [exact Wb|]. split; [reflexivity|]. split; [exact I|]. rewrite SK, r_sarms_SCons. cbn [app].
        split; [reflexivity|]. split; [right; exact U|]. intros _. split; discriminate. }
      eapply PSR_more; [exact R| |].
      * rewrite SK, r_sarms_SCons. reflexivity.
      * rewrite SK. exact PR.
Qed.

(* ---------------------------------------------------------------- corollaries *)
Lemma bfol_nil c io : bfol c io [].
Proof. split; [reflexivity|]. split; exact I. Qed.

Corollary block_inversion b off : wf_block off b ->
  exists n0, forall n, n0 <= n -> p_block n off (r_block inner b) = Ok (er_block b, []).
Proof.
  intros W. destruct inversion as (_ & _ & _ & _ & _ & _ & _ & _ & _ & _ & HB & _).
  pose proof (HB b off [] W (bfol_nil _ _)) as P. rewrite app_nil_r in P. exact P.
Qed.

(** a line whose first token is strictly left of the block ends the block there: the token is left
    for the enclosing construct (if the block ends in an if without else, that token is not else/elif) *)
Corollary dedent_ends_block_k b off k t c' r :
  wf_block off b -> end_of_term k = true -> nohd_else k -> skip_eol k = (t, c') :: r -> is_binop t = false ->
  (block_io b = true -> noelse t) -> c' < bcol b ->
  exists n0, forall n, n0 <= n -> p_block n off (r_block inner b ++ k) = Ok (er_block b, (t, c') :: r).
Proof.
  intros W E NE S N IO L. destruct inversion as (_ & _ & _ & _ & _ & _ & _ & _ & _ & _ & HB & _).
  rewrite <- S. apply HB; [exact W|]. split; [exact E|]. split; [exact NE|]. rewrite S.
  split; [exact N|]. split; [right; exact L|exact IO].
Qed.

(* root level *)
Lemma p_root_skip n ts : p_root n (skip_eol ts) = p_root n ts.
Proof. destruct n; [reflexivity|]. cbn [p_root]. rewrite skip_eol_idem. reflexivity. Qed.

Lemma span_atoks_eol stop l c (r : list ptok) :
  (forall a, stop (TA a) = false) ->
  span_until stop (atoks l ++ @cons ptok (TEOL, c) r) = (map TA l, @cons ptok (TEOL, c) r).
Proof.
  intros Hs. induction l as [|a l IH]; cbn [Layout.atoks map app span_until].
  - rewrite orb_true_r. reflexivity.
  - rewrite Hs. cbn [orb]. unfold Layout.atoks in IH. rewrite IH. reflexivity.
Qed.

Definition root_head (t : tok) : Prop := t = TLET \/ t = TTYPE \/ exists k, t = TKW k.
Lemma root_head_facts t : root_head t -> t <> TEOL /\ t <> TBAR /\ t <> TRP /\ is_binop t = false /\ noelse t.
Proof. intros [->|[->|(k & ->)]]; repeat split; discriminate. Qed.

Lemma r_root_head c x k : wf_root x -> exists t (r : list ptok), r_root inner c x ++ k = @cons ptok (t, c) r /\ root_head t.
Proof.
  destruct x as [s|name b0 c0 case0 cases|name b0 c0 d0 defs|kw toks]; intros W.
  - destruct W as (_ & NE). cbn [r_root]. destruct (r_stmt_head c s k) as (t0 & r0 & E0 & H0).
    exists t0, r0. split; [exact E0|]. left.
    destruct s as [x nl0 e|x y zs nl0 e|f pp ps b|e]; try contradiction.
    + destruct nl0 as [[? ?]|]; [rewrite r_stmt_LLet_next in E0|rewrite r_stmt_LLet_same in E0]; cbn [app] in E0; inversion E0; reflexivity.
    + rewrite r_stmt_LLetFn in E0. cbn [app] in E0. inversion E0; reflexivity.
  - cbn [r_root app]. eexists; eexists; split; [reflexivity|right; left; reflexivity].
  - cbn [r_root app]. eexists; eexists; split; [reflexivity|right; right; eexists; reflexivity].
  - cbn [r_root app]. eexists; eexists; split; [reflexivity|right; right; eexists; reflexivity].
Qed.

Lemma r_prog_skip p prev : wf_prog prev p -> skip_eol (r_prog inner p) = [] \/
  exists t c r, skip_eol (r_prog inner p) = (t, c) :: r /\ root_head t /\ under prev c.
Proof.
  destruct p as [|[[bl c] x] p']; intros H; [left; reflexivity|right].
  cbn [wf_prog] in H. destruct H as (U & W & _).
  cbn [r_prog]. rewrite skip_eols.
  destruct (r_root_head c x (nl 0 ++ r_prog inner p') W) as (t & r & E & H).
  exists t, c, r. rewrite E. split; [apply skip_eol_nonEOL; apply (root_head_facts t H)|]. split; assumption.
Qed.

Definition PCS ts l r := exists n0, forall n, n0 <= n -> p_cases n ts = Ok (l, r).
Lemma cases_parse : forall cases c0 case0 K,
  (match skip_eol K with (TBAR, _) :: _ => False | _ => True end) -> head_is_eol K = true \/ K = [] ->
  PCS ((TBAR, c0) :: atoks case0 ++ r_cases inner cases ++ K)
      (map TA case0 :: map (fun c => map TA (snd c)) cases) K.
Proof.
  induction cases as [|[[bl c] toks] cases IH]; intros c0 case0 K NB HK.
  - cbn [r_cases app map]. exists 1. intros n Hn. fuel n. cbn [p_cases].
    destruct HK as [HK|HK].
    + destruct K as [|[t cc] K']; [discriminate|]. destruct t; try discriminate.
      rewrite (span_atoks_eol is_bar case0 cc K' ltac:(reflexivity)).
      cbn [skip_eol] in *. destruct (skip_eol K') as [|[t2 c2] r2]; [reflexivity|]. destruct t2; try reflexivity; contradiction.
    + subst K. rewrite app_nil_r.
      assert (E : span_until is_bar (atoks case0) = (map TA case0, [])).
      { clear. induction case0 as [|a l IH]; [reflexivity|]. cbn [Layout.atoks map span_until is_bar orb]. unfold Layout.atoks in IH. rewrite IH. reflexivity. }
      rewrite E. reflexivity.
  - cbn [r_cases map snd]. rewrite <- !app_assoc. unfold Layout.nl at 1. cbn [app].
    destruct (IH c toks K NB HK) as (n1 & H1).
    exists (S n1). intros n Hn. fuel n. cbn [p_cases].
    rewrite (span_atoks_eol is_bar case0 inner _ ltac:(reflexivity)).
    cbn [skip_eol]. rewrite skip_eols. cbn [skip_eol]. rewrite <- ?app_assoc. rewrite H1 by lia. reflexivity.
Qed.

Definition PXD c ts l r := exists n0, forall n, n0 <= n -> p_extdefs n c ts = Ok (l, r).
Lemma defs_parse c0 : forall defs ci d0 K,
  Forall (fun d => c0 <= snd (fst d)) defs ->
  end_of_block c0 (skip_eol K) = true -> head_is_eol K = true ->
  PXD c0 ((TLET, ci) :: atoks d0 ++ r_defs inner defs ++ K)
      ((TLET :: map TA d0) :: map (fun d => TLET :: map TA (snd d)) defs) (skip_eol K).
Proof.
  induction defs as [|[[bl c] toks] defs IH]; intros ci d0 K F EB HK.
  - cbn [r_defs app map]. exists 1. intros n Hn. fuel n. cbn [p_extdefs].
    destruct K as [|[t cc] K']; [discriminate|]. destruct t; try discriminate.
    cbn [span_until never orb]. rewrite (span_atoks_eol never d0 cc K' ltac:(reflexivity)).
    rewrite EB. reflexivity.
  - cbn [r_defs map snd]. rewrite <- !app_assoc. unfold Layout.nl at 1. cbn [app].
    inversion F as [|? ? Fc F']; subst. cbn [fst snd] in Fc.
    destruct (IH c toks K F' EB HK) as (n1 & H1).
    exists (S n1). intros n Hn. fuel n. cbn [p_extdefs].
    cbn [span_until never orb]. rewrite (span_atoks_eol never d0 inner _ ltac:(reflexivity)).
    cbn [skip_eol]. rewrite skip_eols. cbn [skip_eol end_of_block].
    rewrite (proj2 (Nat.ltb_ge c c0) Fc). cbn [orb]. rewrite <- ?app_assoc. rewrite H1 by lia. reflexivity.
Qed.

Lemma prog_inversion : forall p prev, wf_prog prev p ->
  exists n0, forall n, n0 <= n -> p_root n (r_prog inner p) = Ok (er_prog p).
Proof.
  destruct inversion as (_ & _ & _ & _ & _ & _ & _ & _ & _ & HS & _).
  induction p as [|[[bl c] x] p IH]; intros prev W.
  - exists 1. intros n Hn. fuel n. reflexivity.
  - cbn [wf_prog] in W. destruct W as (_ & Wx & Wp).
    destruct (IH _ Wp) as (n2 & H2).
    set (k := nl 0 ++ r_prog inner p).
    assert (SKk : skip_eol k = skip_eol (r_prog inner p)) by (unfold k; apply skip_nl).
    destruct x as [s|name b0 c0 case0 cases|name b0 c0 d0 defs|kw toks].
    + (* a root let *)
      destruct Wx as (Ws & NE).
      assert (F : efol 0 (stmt_bd s) (stmt_tm s) (stmt_io s) k).
      { split; [reflexivity|]. split; [exact I|]. rewrite SKk.
        destruct (r_prog_skip p _ Wp) as [->|(t0 & c' & r & -> & H0 & U)]; [exact I|].
        destruct (root_head_facts t0 H0) as (N1 & N2 & N3 & N4 & N5).
        split; [exact N4|]. split; [|split].
        - intros b Hb. right. cbn [root_bd] in U. rewrite Hb in U. exact U.
        - intros _ Ht. destruct N5. destruct Ht as [Ht|[Ht|Ht]]; congruence.
        - intros _. exact N5. }
      destruct (HS s 0 c k Ws F) as (n1 & H1).
      exists (S (Nat.max n1 n2)). intros n Hn. fuel n.
      cbn [r_prog r_root p_root]. rewrite skip_eols. fold k.
      destruct (r_root_head c (RLetL s) k (conj Ws NE)) as (t0 & r0 & E0 & H0). cbn [r_root] in E0.
      assert (T : t0 = TLET).
      { destruct s as [x nl0 e|x y zs nl0 e|f pp ps b|e]; try contradiction.
        - destruct nl0 as [[? ?]|]; [rewrite r_stmt_LLet_next in E0|rewrite r_stmt_LLet_same in E0]; cbn [app] in E0; inversion E0; reflexivity.
        - rewrite r_stmt_LLetFn in E0. cbn [app] in E0. inversion E0; reflexivity. }
      subst t0. rewrite skip_stmt. specialize (H1 n ltac:(lia)). rewrite E0. cbv beta iota. rewrite <- E0. rewrite H1. cbn [bind].
      rewrite <- p_root_skip, skip_aft. rewrite SKk, p_root_skip. rewrite H2 by lia. reflexivity.
    + (* a union definition *)
      assert (NB : match skip_eol k with (TBAR, _) :: _ => False | _ => True end).
      { rewrite SKk. destruct (r_prog_skip p _ Wp) as [->|(t0 & c' & r & -> & H0 & U)]; [exact I|].
        destruct (root_head_facts t0 H0) as (_ & N2 & _). destruct t0; try exact I. congruence. }
      destruct (cases_parse cases c0 case0 k NB (or_introl eq_refl)) as (n1 & H1).
      exists (S (Nat.max n1 n2)). intros n Hn. fuel n.
      cbn [r_prog r_root p_root]. rewrite skip_eols. cbn [app skip_eol span_until is_eq orb].
      rewrite <- ?app_assoc. rewrite ?skip_nl. cbn [app skip_eol]. rewrite <- ?app_assoc. fold k.
      rewrite H1 by lia. cbn [bind]. rewrite <- p_root_skip, SKk, p_root_skip. rewrite H2 by lia. reflexivity.
    + (* a package_info block *)
      destruct Wx as (L0 & Fd).
      assert (EB : end_of_block c0 (skip_eol k) = true).
      { rewrite SKk. destruct (r_prog_skip p _ Wp) as [->|(t0 & c' & r & -> & H0 & U)]; [reflexivity|].
        cbn [root_bd under] in U. cbn [end_of_block]. rewrite (proj2 (Nat.ltb_lt c' c0) U). reflexivity. }
      destruct (defs_parse c0 defs c0 d0 k Fd EB eq_refl) as (n1 & H1).
      exists (S (Nat.max n1 n2)). intros n Hn. fuel n.
      cbn [r_prog r_root p_root]. rewrite skip_eols. cbn [app skip_eol is_pkginfo Nat.eqb span_until is_eq orb].
      rewrite <- ?app_assoc. rewrite ?skip_nl. cbn [app skip_eol]. rewrite <- ?app_assoc. fold k.
      destruct (c0 <=? 0) eqn:Ec; [apply Nat.leb_le in Ec; lia|].
      rewrite H1 by lia. cbn [bind]. rewrite SKk, p_root_skip. rewrite H2 by lia. reflexivity.
    + (* a package / import line *)
      exists (S n2). intros n Hn. fuel n.
      cbn [r_prog r_root p_root]. rewrite skip_eols. cbn [app skip_eol is_pkginfo Nat.eqb].
      unfold Layout.nl. cbn [app Layout.eols repeat].
      rewrite (span_atoks_eol never toks inner _ ltac:(reflexivity)).
      change ((TEOL, inner) :: r_prog inner p) with k. rewrite <- p_root_skip, SKk, p_root_skip. rewrite H2 by lia. reflexivity.
Qed.

End Inv.

(** THE THEOREM: a valid layout is invisible. Whatever the indentation amounts, blank lines, columns of
    inner tokens and same-line/next-line choices recorded in the decorated program [p], parsing its
    rendering gives the erased program. *)
Theorem layout_invariance_partial : forall inner p, wf_prog None p ->
  exists n0, forall n, n0 <= n -> parse_blocks n (r_prog inner p) = Ok (er_prog p).
Proof. intros inner p W. exact (prog_inversion inner p None W). Qed.

(** hence two valid layouts of the same program parse identically *)
Corollary same_structure_same_parse : forall inner1 inner2 p1 p2,
  wf_prog None p1 -> wf_prog None p2 -> er_prog p1 = er_prog p2 ->
  exists n0, forall n, n0 <= n -> parse_blocks n (r_prog inner1 p1) = parse_blocks n (r_prog inner2 p2).
Proof.
  intros i1 i2 p1 p2 W1 W2 E.
  destruct (layout_invariance_partial i1 p1 W1) as (n1 & H1).
  destruct (layout_invariance_partial i2 p2 W2) as (n2 & H2).
  exists (Nat.max n1 n2). intros n Hn. rewrite H1, H2 by lia. rewrite E. reflexivity.
Qed.

Corollary block_layout_invariance : forall inner b off, wf_block off b ->
  exists n0, forall n, n0 <= n -> p_block n off (r_block inner b) = Ok (er_block b, []).
Proof. exact block_inversion. Qed.

Corollary dedent_ends_block : forall inner b off k t c' r,
  wf_block off b -> end_of_term k = true -> nohd_else k -> skip_eol k = (t, c') :: r -> is_binop t = false ->
  (block_io b = true -> noelse t) -> c' < bcol b ->
  exists n0, forall n, n0 <= n -> p_block n off (r_block inner b ++ k) = Ok (er_block b, (t, c') :: r).
Proof. exact dedent_ends_block_k. Qed.

Print Assumptions layout_invariance_partial.
Print Assumptions dedent_ends_block.
