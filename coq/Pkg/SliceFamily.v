(** C12/C13 — the named family of total callbacks shared by the oracle and the Go harness
    (harness/c12.go, c13.go implement the same functions on Go ints / frt.Tuple2; values are kept
    small enough that 64-bit wrap-around never happens). The theorems quantify over ALL functions;
    this family is only what the correspondence runs. Go's % is truncated division: Z.rem. *)
From Coq Require Import List ZArith Bool.
From FoVerif Require Import Pkg.SliceHeap.
Import ListNotations.
Open Scope Z_scope.

Definition lift (g : Z -> Z) (v : val) : val := match v with VI z => VI (g z) | VP _ _ => v end.
Definition vfst (v : val) : val := match v with VP a _ => a | _ => v end.
Definition vsnd (v : val) : val := match v with VP _ b => b | _ => v end.

(* val -> val *)
Definition f_addk (k : Z) := lift (fun z => z + k).
Definition f_mulk (k : Z) := lift (fun z => z * k).
Definition f_neg := lift Z.opp.
Definition f_const (k : Z) (_ : val) := VI k.
Definition f_modk (k : Z) := lift (fun z => Z.rem z k).
Definition f_fst := vfst.
Definition f_snd := vsnd.
Definition f_swap (v : val) := match v with VP a b => VP b a | _ => v end.
Definition f_sum (v : val) := match v with VP a b => VI (vkey a + vkey b) | _ => v end.
Definition f_dup (v : val) := VP v v.
(* index -> val -> val *)
Definition fi_addidx (i : Z) := lift (fun z => z + i).
Definition fi_muladd (k i : Z) := lift (fun z => z * k + i).
Definition fi_idx (i : Z) (_ : val) := VI i.
Definition fi_pair (i : Z) (v : val) := VP (VI i) v.
(* predicates *)
Definition p_gtk (k : Z) (v : val) := k <? vkey v.
Definition p_ltk (k : Z) (v : val) := vkey v <? k.
Definition p_eqk (k : Z) (v : val) := vkey v =? k.
Definition p_modeq (k r : Z) (v : val) := Z.rem (vkey v) k =? r.
Definition p_true (_ : val) := true.
Definition p_false (_ : val) := false.
Definition p_fstgt (k : Z) (v : val) := k <? vkey (vfst v).
(* sort keys *)
Definition j_id := vkey.
Definition j_neg (v : val) := - vkey v.
Definition j_modk (k : Z) (v : val) := Z.rem (vkey v) k.
Definition j_abs (v : val) := Z.abs (vkey v).
Definition j_fst (v : val) := vkey (vfst v).
Definition j_snd (v : val) := vkey (vsnd v).
(* folders: state -> element -> state *)
Definition fo_sum (s e : val) := VI (vkey s + vkey e).
Definition fo_sub (s e : val) := VI (vkey s - vkey e).
Definition fo_horner (k : Z) (s e : val) := VI (Z.rem (vkey s * k + vkey e) 1000003).
Definition fo_count (s _ : val) := VI (vkey s + 1).
Definition fo_last (_ e : val) := e.
(* element -> fresh list *)
Definition g_rep (k : nat) (v : val) : list val := repeat v k.
Definition g_range (v : val) : list val :=
  map (fun i => VI (vkey v + Z.of_nat i)) (seq 0 (Z.to_nat (Z.rem (Z.abs (vkey v)) 3))).
Definition g_empty (_ : val) : list val := [].
Definition g_selfneg (v : val) : list val := [v; f_neg v].

(** C13 requests evaluate one function on a slice that sits inside a larger array (non-zero
    offset, spare capacity), so the model's index arithmetic is exercised *)
Definition arg_slice (h : heap) (l : list val) : heap * slice :=
  (alloc h (VI 77 :: l ++ [VI 88]), mk (Some (length h)) 1 (length l) (length l + 1)).
Definition outcome (r : heap * result slice) : result (list val) :=
  match snd r with Ok s => Ok (contents (fst r) s) | Panic p => Panic p end.
