(** C14 — the modelled dict (Dict.v) refines a finite map, over all operation histories and
    for every enumeration order. *)
From Coq Require Import List Arith Bool Lia Permutation.
From FoVerif Require Import Pkg.Buf Pkg.Dict.
Import ListNotations.

(** * lists: upd and Forall2 *)

Lemma nth_error_upd_same : forall {A} (l : list A) d x y,
  nth_error l d = Some y -> nth_error (upd l d x) d = Some x.
Proof.
  induction l as [|a l IH]; intros d x y H; destruct d; cbn in *; try discriminate; eauto.
Qed.

Lemma upd_upd : forall {A} (l : list A) d x y, upd (upd l d x) d y = upd l d y.
Proof.
  induction l as [|a l IH]; intros d x y; destruct d; cbn; try reflexivity. f_equal. apply IH.
Qed.

Lemma upd_app_last : forall {A} (l : list A) a x, upd (l ++ [a]) (List.length l) x = l ++ [x].
Proof. induction l as [|b l IH]; intros; cbn; [reflexivity|]. f_equal. apply IH. Qed.

Lemma nth_error_app_last : forall {A} (l : list A) a, nth_error (l ++ [a]) (List.length l) = Some a.
Proof. induction l; cbn; auto. Qed.

Lemma Forall2_upd : forall {A B} (R : A -> B -> Prop) l1 l2 d x y,
  Forall2 R l1 l2 -> R x y -> Forall2 R (upd l1 d x) (upd l2 d y).
Proof.
  intros A B R l1 l2 d x y H. revert d. induction H as [|a b l1 l2 Hab H IH]; intros d Hxy.
  - destruct d; constructor.
  - destruct d; cbn; constructor; auto.
Qed.

Lemma Forall2_nth : forall {A B} (R : A -> B -> Prop) l1 l2 d,
  Forall2 R l1 l2 ->
  match nth_error l1 d, nth_error l2 d with
  | Some a, Some b => R a b
  | None, None => True
  | _, _ => False
  end.
Proof.
  intros A B R l1 l2 d H. revert d.
  induction H as [|a b l1 l2 Hab H IH]; intro d; destruct d; cbn; auto. apply IH.
Qed.

Section DictProofs.
  Variable K V : Type.
  Variable keqb : K -> K -> bool.
  Variable vzero : V.
  Variable enum : nat -> list (K * V) -> list (K * V).
  Hypothesis keqb_spec : forall a b, keqb a b = true <-> a = b.
  Hypothesis enum_perm : forall i l, Permutation (enum i l) l.

  Notation gomap := (gomap K V).
  Notation m_get := (m_get K V keqb).
  Notation m_set := (m_set K V keqb).
  Notation fmap := (fmap K V).
  Notation f_add := (f_add K V keqb).
  Notation last_val := (last_val K V keqb).
  Notation Add := (Add K V keqb).
  Notation step := (step K V keqb vzero enum).
  Notation run := (run K V keqb vzero enum).
  Notation spec_step := (spec_step K V keqb).
  Notation res_ok := (res_ok K V vzero).
  Notation trace_ok := (trace_ok K V keqb vzero).

  Lemma keqb_refl : forall a, keqb a a = true.
  Proof. intro a. apply keqb_spec. reflexivity. Qed.

  Lemma keqb_false : forall a b, keqb a b = false <-> a <> b.
  Proof.
    intros a b. split.
    - intros H E. apply keqb_spec in E. congruence.
    - intro H. destruct (keqb a b) eqn:E; [|reflexivity]. apply keqb_spec in E. contradiction.
  Qed.

  (** * Go map as an association list *)

  Lemma m_get_set : forall m k v k',
    m_get (m_set m k v) k' = if keqb k' k then Some v else m_get m k'.
  Proof.
    induction m as [|[k0 v0] m IH]; intros k v k'; cbn.
    - reflexivity.
    - destruct (keqb k k0) eqn:E; cbn.
      + apply keqb_spec in E. subst k0. destruct (keqb k' k); reflexivity.
      + rewrite IH. destruct (keqb k' k0) eqn:E2; [|reflexivity].
        apply keqb_spec in E2. subst k0.
        destruct (keqb k' k) eqn:E3; [|reflexivity].
        apply keqb_spec in E3. subst k'. rewrite keqb_refl in E. discriminate.
  Qed.

  Lemma m_set_keys : forall m k v k',
    In k' (map fst (m_set m k v)) <-> k' = k \/ In k' (map fst m).
  Proof.
    induction m as [|[k0 v0] m IH]; intros k v k'; cbn.
    - intuition.
    - destruct (keqb k k0) eqn:E; cbn.
      + apply keqb_spec in E. subst k0. intuition.
      + rewrite IH. intuition.
  Qed.

  Lemma m_set_nodup : forall m k v, NoDup (map fst m) -> NoDup (map fst (m_set m k v)).
  Proof.
    induction m as [|[k0 v0] m IH]; intros k v H; cbn.
    - constructor; [intros []|constructor].
    - inversion H as [|? ? Hn Hd]; subst. destruct (keqb k k0) eqn:E; cbn.
      + apply keqb_spec in E. subst k0. constructor; assumption.
      + constructor; [|apply IH; assumption].
        rewrite m_set_keys. intros [E2|E2]; [|contradiction].
        subst k0. rewrite keqb_refl in E. discriminate.
  Qed.

  Lemma m_get_none : forall m k, m_get m k = None <-> ~ In k (map fst m).
  Proof.
    induction m as [|[k0 v0] m IH]; intro k; cbn.
    - intuition.
    - destruct (keqb k k0) eqn:E.
      + apply keqb_spec in E. subst k0. split; [discriminate|]. intro H. exfalso. apply H. auto.
      + rewrite IH. apply keqb_false in E. intuition.
  Qed.

  Lemma m_get_some_in : forall m k v, m_get m k = Some v -> In k (map fst m).
  Proof.
    induction m as [|[k0 v0] m IH]; intros k v H; cbn in *; [discriminate|].
    destruct (keqb k k0) eqn:E.
    - apply keqb_spec in E. auto.
    - right. eapply IH. exact H.
  Qed.

  Lemma m_get_in : forall m k v, NoDup (map fst m) -> (In (k, v) m <-> m_get m k = Some v).
  Proof.
    induction m as [|[k0 v0] m IH]; intros k v H; cbn.
    - split; [intros []|discriminate].
    - inversion H as [|? ? Hn Hd]; subst. destruct (keqb k k0) eqn:E.
      + apply keqb_spec in E. subst k0. split.
        * intros [E|Hin]; [congruence|]. exfalso. apply Hn. apply (in_map fst) in Hin. exact Hin.
        * intro E. left. congruence.
      + apply keqb_false in E. rewrite <- IH by assumption. split.
        * intros [E2|Hin]; [congruence|assumption].
        * auto.
  Qed.

  (** * the refinement relation *)

  Definition rel (m : gomap) (f : fmap) : Prop :=
    NoDup (map fst m) /\ forall k, m_get m k = f k.

  Definition hrel (h : heap K V) (sh : sheap K V) : Prop := Forall2 rel h sh.

  Lemma rel_set : forall m f k v, rel m f -> rel (m_set m k v) (f_add f k v).
  Proof.
    intros m f k v [Hd Hg]. split.
    - apply m_set_nodup. exact Hd.
    - intro k'. rewrite m_get_set. unfold Dict.f_add. rewrite Hg. reflexivity.
  Qed.

  Lemma hrel_length : forall h sh, hrel h sh -> List.length h = List.length sh.
  Proof. intros h sh H. induction H; cbn; congruence. Qed.

  Lemma hrel_add : forall h sh d k v, hrel h sh -> hrel (Add h d k v) (spec_step sh (OAdd K V d k v)).
  Proof.
    intros h sh d k v H. unfold Dict.Add. cbn [Dict.spec_step].
    pose proof (Forall2_nth rel h sh d H) as N.
    destruct (nth_error h d) as [m|], (nth_error sh d) as [f|]; try contradiction; [|exact H].
    apply Forall2_upd; [exact H|]. apply rel_set. exact N.
  Qed.

  (** ToDict: the loop of Adds leaves, at the fresh dictionary, the last value of every key *)
  Lemma fold_add_spec : forall ss h d m,
    nth_error h d = Some m -> NoDup (map fst m) ->
    exists m',
      fold_left (fun hh kv => Add hh d (fst kv) (snd kv)) ss h = upd h d m' /\
      NoDup (map fst m') /\
      forall k, m_get m' k = match last_val ss k with Some v => Some v | None => m_get m k end.
  Proof.
    induction ss as [|[k0 v0] ss IH]; intros h d m Hn Hd.
    - exists m. cbn. split; [|split; [assumption|reflexivity]].
      clear Hd. revert d Hn. induction h as [|a h IHh]; intros d Hn; destruct d; cbn in *; try discriminate.
      + congruence.
      + f_equal. apply IHh. exact Hn.
    - cbn [fold_left fst snd].
      assert (EA : Add h d k0 v0 = upd h d (m_set m k0 v0)) by (unfold Dict.Add, Dict.gomap in *; rewrite Hn; reflexivity).
      rewrite EA.
      destruct (IH (upd h d (m_set m k0 v0)) d (m_set m k0 v0)) as [m' [E [Hd' Hg]]].
      + eapply nth_error_upd_same. exact Hn.
      + apply m_set_nodup. exact Hd.
      + exists m'. split; [|split; [exact Hd'|]].
        * rewrite E. apply upd_upd.
        * intro k. rewrite Hg. cbn [Dict.last_val].
          destruct (last_val ss k); [reflexivity|]. rewrite m_get_set.
          destruct (keqb k k0); reflexivity.
  Qed.

  Lemma hrel_todict : forall h sh ss, hrel h sh ->
    hrel (fst (ToDict K V keqb h ss)) (sh ++ [last_val ss]) /\
    snd (ToDict K V keqb h ss) = List.length sh.
  Proof.
    intros h sh ss H. unfold Dict.ToDict, Dict.New. cbn [fst snd].
    destruct (fold_add_spec ss (h ++ [[]]) (List.length h) []) as [m' [E [Hd Hg]]].
    - apply nth_error_app_last.
    - constructor.
    - split; [|apply hrel_length; exact H].
      rewrite E, upd_app_last. apply Forall2_app; [exact H|].
      constructor; [|constructor]. split; [exact Hd|].
      intro k. rewrite Hg. cbn. destruct (last_val ss k); reflexivity.
  Qed.

  (** [last_val] really is the last value paired with the key *)
  Lemma last_val_snoc : forall ss k v k',
    last_val (ss ++ [(k, v)]) k' = if keqb k' k then Some v else last_val ss k'.
  Proof.
    induction ss as [|[k0 v0] ss IH]; intros k v k'.
    - cbn. destruct (keqb k' k); reflexivity.
    - cbn [app Dict.last_val]. rewrite IH. destruct (keqb k' k); [reflexivity|].
      destruct (last_val ss k'); reflexivity.
  Qed.

  Lemma last_val_none : forall ss k, last_val ss k = None <-> ~ In k (map fst ss).
  Proof.
    induction ss as [|[k0 v0] ss IH]; intro k; cbn.
    - intuition.
    - destruct (last_val ss k) eqn:E.
      + split; [discriminate|]. intro H. exfalso.
        assert (N : ~ In k (map fst ss)) by (intro; apply H; right; assumption).
        apply IH in N. congruence.
      + destruct (keqb k k0) eqn:E2.
        * apply keqb_spec in E2. subst. split; [discriminate|]. intro H. exfalso. apply H. left. reflexivity.
        * apply keqb_false in E2. split; [|reflexivity]. intros _ [H|H]; [congruence|].
          apply (proj1 (IH k) E). exact H.
  Qed.

  Theorem last_val_is_last : forall ss k v,
    (forall k', last_val (ss ++ [(k, v)]) k' = if keqb k' k then Some v else last_val ss k') /\
    (last_val ss k = None <-> ~ In k (map fst ss)).
  Proof. intros. split; [intro; apply last_val_snoc|apply last_val_none]. Qed.

  (** * enumerations *)

  Lemma enum_nodup : forall i m, NoDup (map fst m) -> NoDup (map fst (enum i m)).
  Proof.
    intros i m H. eapply Permutation_NoDup; [|exact H].
    apply Permutation_map. apply Permutation_sym. apply enum_perm.
  Qed.

  Lemma enum_in : forall i m kv, In kv (enum i m) <-> In kv m.
  Proof.
    intros i m kv. split; apply Permutation_in; [|apply Permutation_sym]; apply enum_perm.
  Qed.

  (** * one operation *)

  Lemma step_ok : forall i h sh o, hrel h sh ->
    res_ok sh o (snd (step i h o)) /\ hrel (fst (step i h o)) (spec_step sh o).
  Proof.
    intros i h sh o H.
    pose proof (hrel_length h sh H) as L.
    destruct o as [|d k v|d k|d k|d k|d|d|d|ss]; cbn [Dict.step Dict.spec_step Dict.res_ok].
    - (* New *) unfold Dict.New. cbn [fst snd]. split; [congruence|].
      apply Forall2_app; [exact H|]. constructor; [|constructor]. split; [constructor|reflexivity].
    - (* Add *) cbn [fst snd]. split; [|apply hrel_add; exact H].
      unfold Dict.with_map. pose proof (Forall2_nth rel h sh d H) as N.
      destruct (nth_error h d), (nth_error sh d); try contradiction; reflexivity.
    - (* ContainsKey *) cbn [fst snd]. split; [|exact H].
      unfold Dict.with_map. pose proof (Forall2_nth rel h sh d H) as N.
      destruct (nth_error h d) as [m|], (nth_error sh d) as [f|]; try contradiction; [|reflexivity].
      destruct N as [_ Hg]. unfold Dict.ContainsKey. rewrite Hg. reflexivity.
    - (* TryFind *) cbn [fst snd]. split; [|exact H].
      unfold Dict.with_map. pose proof (Forall2_nth rel h sh d H) as N.
      destruct (nth_error h d) as [m|], (nth_error sh d) as [f|]; try contradiction; [|reflexivity].
      destruct N as [_ Hg]. unfold Dict.TryFind. rewrite Hg. destruct (f k); reflexivity.
    - (* Item *) cbn [fst snd]. split; [|exact H].
      unfold Dict.with_map. pose proof (Forall2_nth rel h sh d H) as N.
      destruct (nth_error h d) as [m|], (nth_error sh d) as [f|]; try contradiction; [|reflexivity].
      destruct N as [_ Hg]. unfold Dict.Item. rewrite Hg. reflexivity.
    - (* KVs *) cbn [fst snd]. split; [|exact H].
      unfold Dict.with_map. pose proof (Forall2_nth rel h sh d H) as N.
      destruct (nth_error h d) as [m|], (nth_error sh d) as [f|]; try contradiction; [|reflexivity].
      destruct N as [Hd Hg]. exists (enum i m). split; [reflexivity|]. split; [apply enum_nodup; exact Hd|].
      intros k v. rewrite enum_in, m_get_in, Hg by exact Hd. reflexivity.
    - (* Keys *) cbn [fst snd]. split; [|exact H].
      unfold Dict.with_map. pose proof (Forall2_nth rel h sh d H) as N.
      destruct (nth_error h d) as [m|], (nth_error sh d) as [f|]; try contradiction; [|reflexivity].
      destruct N as [Hd Hg]. exists (map fst (enum i m)). split; [reflexivity|]. split; [apply enum_nodup; exact Hd|].
      intro k. rewrite <- Hg.
      assert (P : In k (map fst (enum i m)) <-> In k (map fst m)).
      { split; apply Permutation_in; apply Permutation_map; [|apply Permutation_sym]; apply enum_perm. }
      rewrite P. split.
      + intros Hin E. apply m_get_none in E. contradiction.
      + intro Hne. destruct (m_get m k) as [v|] eqn:E; [|congruence].
        eapply m_get_some_in. exact E.
    - (* Values *) cbn [fst snd]. split; [|exact H].
      unfold Dict.with_map. pose proof (Forall2_nth rel h sh d H) as N.
      destruct (nth_error h d) as [m|], (nth_error sh d) as [f|]; try contradiction; [|reflexivity].
      destruct N as [Hd Hg]. exists (enum i m). split; [reflexivity|]. split; [apply enum_nodup; exact Hd|].
      intros k v. rewrite enum_in, m_get_in, Hg by exact Hd. reflexivity.
    - (* ToDict *)
      destruct (hrel_todict h sh ss H) as [H1 H2].
      destruct (ToDict K V keqb h ss) as [h1 d] eqn:E. cbn [fst snd] in *. split; [congruence|exact H1].
  Qed.

  (** * all histories *)

  Lemma run_refines : forall ops i h sh, hrel h sh -> trace_ok sh ops (snd (run i h ops)).
  Proof.
    induction ops as [|o ops IH]; intros i h sh H; cbn [Dict.run Dict.trace_ok].
    - exact I.
    - destruct (step_ok i h sh o H) as [R H1].
      destruct (step i h o) as [h1 x] eqn:E. cbn [fst snd] in *.
      specialize (IH (S i) h1 (spec_step sh o) H1).
      destruct (run (S i) h1 ops) as [h2 xs]. cbn [snd] in *. split; assumption.
  Qed.

  Theorem dict_refines_map : forall ops, trace_ok [] ops (snd (run 0 [] ops)).
  Proof. intro ops. apply run_refines. constructor. Qed.
End DictProofs.

(** the oracle's instance satisfies the hypotheses *)
From Coq Require Import ZArith Ascii.
Lemma bytes_eqb_spec : forall a b, bytes_eqb a b = true <-> a = b.
Proof.
  induction a as [|x a IH]; destruct b as [|y b]; cbn; split; intro H; try congruence; auto.
  - apply andb_true_iff in H. destruct H as [H1 H2].
    apply Ascii.eqb_eq in H1. apply IH in H2. congruence.
  - inversion H; subst. apply andb_true_iff. split; [apply Ascii.eqb_refl|apply IH; reflexivity].
Qed.

Lemma enum_sz_perm : forall r i l, Permutation (enum_sz r i l) l.
Proof.
  intros r i l. unfold enum_sz. destruct r; [|apply Permutation_refl].
  apply Permutation_sym. apply Permutation_rev.
Qed.
