(** C14 — model of pkg/strings/strings.go.  Definitions only.

    Every wrapper is written as the call of a small hand model of the Go [strings] function it
    delegates to, WITH THE ARGUMENTS IN THE ORDER THE GO CODE PASSES THEM (the wrapper takes the
    pipeline-friendly order, Go's functions take the subject string first).  The hand models
    [go_*] follow the Go 1.23 standard library:

      HasPrefix(s, p)  = len(s) >= len(p) && s[:len(p)] == p
      HasSuffix(s, x)  = len(s) >= len(x) && s[len(s)-len(x):] == x
      TrimSuffix(s, x) = if HasSuffix(s, x) { s[:len(s)-len(x)] } else { s }
      Split(s, sep)    = genSplit(s, sep, 0, -1);  SplitN(s, sep, n) = genSplit(s, sep, 0, n)
      genSplit: n == 0 -> nil; sep == "" -> explode(s, n); n < 0 -> n = Count(s, sep) + 1;
                n > len(s)+1 -> n = len(s)+1; then at most n-1 times cut at Index(s, sep);
                the rest is the last piece.

    Restriction: [go_explode] (empty separator) splits into BYTES; Go splits into UTF-8 sequences.
    The model is faithful for an empty separator only on ASCII subjects; the theorems about Split /
    SplitN are stated for non-empty separators, the harness compares the empty-separator case on
    ASCII subjects only. *)
From Coq Require Import List Ascii Arith ZArith Bool.
From FoVerif Require Import Pkg.Buf.
Import ListNotations.

(** * byte-string helpers *)

Fixpoint beq (a b : bytes) : bool :=
  match a, b with
  | [], [] => true
  | x :: a', y :: b' => Ascii.eqb x y && beq a' b'
  | _, _ => false
  end.

(** * hand model of Go's strings package *)

Definition go_has_prefix (s prefix : bytes) : bool :=
  (List.length prefix <=? List.length s) && beq (firstn (List.length prefix) s) prefix.

Definition go_has_suffix (s suffix : bytes) : bool :=
  (List.length suffix <=? List.length s) &&
  beq (skipn (List.length s - List.length suffix) s) suffix.

Definition go_trim_suffix (s suffix : bytes) : bytes :=
  if go_has_suffix s suffix then firstn (List.length s - List.length suffix) s else s.

(** [go_cut s sep] = strings.Cut: the text before and after the first occurrence of [sep]
    (Index + the two slicings of genSplit's loop body). *)
Fixpoint go_cut (s sep : bytes) : option (bytes * bytes) :=
  if go_has_prefix s sep then Some ([], skipn (List.length sep) s)
  else match s with
       | [] => None
       | c :: s' =>
           match go_cut s' sep with
           | Some (a, b) => Some (c :: a, b)
           | None => None
           end
       end.

(** strings.Count for a non-empty separator: non-overlapping occurrences, left to right.
    Go's loop has no bound; every iteration consumes at least one byte, so [length s] iterations
    suffice (fuel; the value does not depend on it once it is >= length s). *)
Fixpoint go_count_loop (fuel : nat) (s sep : bytes) : nat :=
  match fuel with
  | O => 0
  | S f =>
      match go_cut s sep with
      | None => 0
      | Some (_, b) => S (go_count_loop f b sep)
      end
  end.
Definition go_count (s sep : bytes) : nat := go_count_loop (List.length s) s sep.

(** the loop of genSplit: at most [k] cuts, the rest is the last piece *)
Fixpoint go_split_loop (k : nat) (s sep : bytes) : list bytes :=
  match k with
  | O => [s]
  | S k' =>
      match go_cut s sep with
      | None => [s]
      | Some (a, b) => a :: go_split_loop k' b sep
      end
  end.

(** explode(s, n) on bytes (ASCII subjects): n pieces at most, the last takes the rest;
    [n = None] stands for n < 0 *)
Fixpoint go_explode_loop (k : nat) (s : bytes) : list bytes :=
  match s with
  | [] => []
  | c :: s' =>
      match k with
      | O => [s]
      | S k' => match s' with [] => [[c]] | _ => [c] :: go_explode_loop k' s' end
      end
  end.
Definition go_explode (s : bytes) (n : Z) : list bytes :=
  let l := List.length s in
  let n' := if (n <? 0)%Z then l else Nat.min (Z.to_nat n) l in
  match n' with
  | O => []
  | S k => go_explode_loop k s
  end.

Definition go_gen_split (s sep : bytes) (n : Z) : list bytes :=
  if (n =? 0)%Z then []
  else match sep with
       | [] => go_explode s n
       | _ =>
           let n1 := if (n <? 0)%Z then S (go_count s sep) else Z.to_nat n in
           let n2 := Nat.min n1 (S (List.length s)) in
           go_split_loop (pred n2) s sep
       end.

Definition go_split (s sep : bytes) : list bytes := go_gen_split s sep (-1).
Definition go_split_n (s sep : bytes) (n : Z) : list bytes := go_gen_split s sep n.

(** * the wrappers of pkg/strings/strings.go, argument order as in the code *)

(** Concat: [for i, s := range strs { if i != 0 { buf.WriteString(sep) }; buf.WriteString(s) }] *)
Fixpoint concat_loop (sep : bytes) (first : bool) (strs : list bytes) (buf : bytes) : bytes :=
  match strs with
  | [] => buf
  | s :: r =>
      let buf1 := if first then buf else bb_write buf sep in
      concat_loop sep false r (bb_write buf1 s)
  end.
Definition Concat (sep : bytes) (strs : list bytes) : bytes :=
  bb_string (concat_loop sep true strs bb_new).

Definition Length (str : bytes) : nat := List.length str.
Definition AppendTail (tail s : bytes) : bytes := s ++ tail.
Definition AppendHead (head s : bytes) : bytes := head ++ s.
Definition HasSuffix (suffix s : bytes) : bool := go_has_suffix s suffix.
Definition TrimSuffix (suffix s : bytes) : bytes := go_trim_suffix s suffix.
Definition HasPrefix (prefix s : bytes) : bool := go_has_prefix s prefix.
Definition EncloseWith (beg end_ center : bytes) : bytes := beg ++ center ++ end_.
Definition Split (sep cont : bytes) : list bytes := go_split cont sep.
Definition SplitN (count : Z) (sep cont : bytes) : list bytes := go_split_n cont sep count.
Definition IsEmpty (s : bytes) : bool := match s with [] => true | _ => false end.
Definition IsNotEmpty (s : bytes) : bool := match s with [] => false | _ => true end.

(** * specification vocabulary *)

(** F#-style String.concat: the pieces with [sep] between them *)
Fixpoint join (sep : bytes) (l : list bytes) : bytes :=
  match l with
  | [] => []
  | [x] => x
  | x :: r => x ++ sep ++ join sep r
  end.

Definition contains (sep p : bytes) : Prop := exists a b, p = a ++ sep ++ b.
