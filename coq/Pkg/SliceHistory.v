(** C12 — histories of slice-package calls over a growing pool of slice values:
    every value keeps the contents it had when it was produced; and the whole heap
    implementation refines the pure list semantics (so contents do not depend on [grow]). *)
From Coq Require Import List Arith Lia Bool ZArith Permutation.
From FoVerif Require Import Pkg.SliceHeap Pkg.SliceHeapBase Pkg.SliceHeapProofs.
Import ListNotations.

Definition wf (st : state) : Prop := List.Forall (valid (fst st)) (snd st).

(** the same history on plain lists: the pool is a list of lists *)
Definition apool := list (list val).
Definition apick (ap : apool) (i : nat) : list val := nth i ap [].
Definition apush (ap : apool) (r : result (list val)) : apool :=
  match r with Ok l => ap ++ [l] | Panic _ => ap end.
Definition spec_cb (ap : apool) (f : cbk) : val -> list val :=
  match f with
  | CbFresh g => g
  | CbPick js => fun e => nth (pick_index (length js) e) (map (apick ap) js) []
  end.

Section History.
Variable sorter : (val -> Z) -> list val -> list val.
Hypothesis sorter_perm : forall key l, Permutation l (sorter key l).

Definition spec_step (ap : apool) (c : call) : apool :=
  match c with
  | CLit l => ap ++ [l]
  | CMake l _ => ap ++ [l]
  | CNew => ap ++ [[]]
  | CTail i => apush ap (spec_tail (apick ap i))
  | CPopLast i => apush ap (spec_poplast (apick ap i))
  | CTake n i => apush ap (spec_take n (apick ap i))
  | CSkip n i => apush ap (spec_skip n (apick ap i))
  | CMap f i => ap ++ [map f (apick ap i)]
  | CMapi f i => ap ++ [mapi_from f 0 (apick ap i)]
  | CFilter f i => ap ++ [filter f (apick ap i)]
  | CSort i => ap ++ [sorter vkey (apick ap i)]
  | CSortBy f i => ap ++ [sorter f (apick ap i)]
  | CZip i j => apush ap (spec_zip (apick ap i) (apick ap j))
  | CPushLast x i => ap ++ [apick ap i ++ [x]]
  | CPushHead x i => ap ++ [x :: apick ap i]
  | CCollect f i => ap ++ [flat_map (spec_cb ap f) (apick ap i)]
  | CConcat is => ap ++ [concat (map (apick ap) is)]
  | CAppend i j => ap ++ [apick ap i ++ apick ap j]
  | CDistinct i => ap ++ [dedup [] (apick ap i)]
  | CObserve _ => ap
  end.
Definition spec_run (ap : apool) (cs : list call) : apool := fold_left spec_step cs ap.

Section Grow.
Variable grow : nat -> nat -> nat.
Hypothesis grow_ok : forall c n, n <= grow c n.

Notation step := (step grow sorter).
Notation run := (run grow sorter).

Lemma pick_valid h p i : List.Forall (valid h) p -> valid h (pick p i).
Proof.
  intros W. unfold pick. destruct (le_lt_dec (length p) i) as [H|H].
  - rewrite nth_overflow by exact H. apply valid_nil.
  - rewrite Forall_forall in W. apply W, nth_In, H.
Qed.
Lemma pick_contents h p i : contents h (pick p i) = apick (map (contents h) p) i.
Proof. unfold pick, apick. change (@nil val) with (contents h nilslice). apply eq_sym, map_nth. Qed.
Lemma picks_valid h p is : List.Forall (valid h) p -> List.Forall (valid h) (picks p is).
Proof. intros W. unfold picks. rewrite Forall_forall. intros s H. apply in_map_iff in H.
  destruct H as (i & <- & _). apply pick_valid, W. Qed.
Lemma picks_contents h p is : map (contents h) (picks p is) = map (apick (map (contents h) p)) is.
Proof. unfold picks. rewrite map_map. apply map_ext. intros i. apply pick_contents. Qed.

Lemma observe_extends h h' p : heap_extends h h' -> List.Forall (valid h) p ->
  map (contents h') p = map (contents h) p.
Proof. intros X W. apply map_ext_in. intros s H. rewrite Forall_forall in W. apply extends_contents; auto. Qed.
Lemma wf_extends h h' p : heap_extends h h' -> List.Forall (valid h) p -> List.Forall (valid h') p.
Proof. intros X W. eapply Forall_impl; [|exact W]. intros s V. eapply extends_valid; eauto. Qed.

(** what one call does to a well-formed state *)
Definition step_ok (h : heap) (p : pool) (st' : state) (ap' : apool) : Prop :=
  heap_extends h (fst st') /\ wf st' /\ observe st' = ap' /\ exists new, snd st' = p ++ new.

Lemma push_result_ok h p r spec : List.Forall (valid h) p ->
  heap_extends h (fst r) -> refines (fst r) (snd r) spec ->
  step_ok h p (push_result p r) (apush (map (contents h) p) spec).
Proof.
  intros W X R. unfold push_result, step_ok, wf, observe. destruct spec as [l|pk]; cbn [refines] in R.
  - destruct R as (res & -> & V & C). cbn [fst snd apush].
    split; [exact X|]. split; [apply Forall_app; split; [eapply wf_extends; eauto|repeat constructor; exact V]|].
    split; [|eexists; reflexivity]. rewrite map_app, (observe_extends _ _ _ X W). cbn. rewrite C. reflexivity.
  - rewrite R. cbn [fst snd apush]. split; [exact X|]. split; [eapply wf_extends; eauto|].
    split; [apply observe_extends; auto|]. exists []. rewrite app_nil_r. reflexivity.
Qed.
Lemma push_result_ok' h p r l : List.Forall (valid h) p ->
  heap_extends h (fst r) -> refines (fst r) (snd r) (Ok l) ->
  step_ok h p (push_result p r) (map (contents h) p ++ [l]).
Proof. intros W X R. exact (push_result_ok h p r (Ok l) W X R). Qed.
Lemma lit_state_ok h p r l : List.Forall (valid h) p ->
  heap_extends h (fst r) -> valid (fst r) (snd r) -> contents (fst r) (snd r) = l ->
  step_ok h p (lit_state p r) (map (contents h) p ++ [l]).
Proof.
  intros W X V C. unfold lit_state, step_ok, wf, observe. cbn [fst snd].
  split; [exact X|]. split; [apply Forall_app; split; [eapply wf_extends; eauto|repeat constructor; exact V]|].
  split; [|eexists; reflexivity]. rewrite map_app, (observe_extends _ _ _ X W). cbn. rewrite C. reflexivity.
Qed.

Lemma cb_of_ok h p f : List.Forall (valid h) p ->
  cb_ok (length h) h (cb_of p f) (spec_cb (map (contents h) p) f).
Proof.
  intros W. destruct f as [g|js]; intros hh e h1 one Fr Ln E; cbn [cb_of spec_cb] in *.
  - unfold cb_fresh in E. destruct (literal_spec _ _ _ _ E) as (X & _ & V & C & _). auto.
  - unfold cb_pick in E. inversion E; subst; clear E. split; [apply heap_extends_refl|].
    set (sl := picks p js). assert (Wsl : List.Forall (valid h) sl) by (apply picks_valid, W).
    assert (V : valid h (nth (pick_index (length sl) e) sl nilslice)).
    { destruct (le_lt_dec (length sl) (pick_index (length sl) e)) as [H|H].
      - rewrite nth_overflow by exact H. apply valid_nil.
      - rewrite Forall_forall in Wsl. apply Wsl, nth_In, H. }
    split; [eapply frame_valid; [exact Fr|apply valid_old, V|exact V]|].
    rewrite (frame_contents _ _ _ _ Fr (valid_old _ _ V)).
    change (@nil val) with (contents h nilslice). rewrite <- picks_contents. fold sl.
    rewrite map_nth. f_equal. f_equal. unfold sl, picks. rewrite map_length. reflexivity.
Qed.

Ltac by_spec T :=
  match goal with
  | |- step_ok ?h ?p (push_result ?p ?r) _ =>
      let X := fresh "X" in let R := fresh "R" in
      destruct (T (fst r) (snd r)) as (X & R);
      [try assumption; try (apply pick_valid; assumption) ..
      |first [exact (push_result_ok _ _ _ _ ltac:(assumption) X R)
             |exact (push_result_ok' _ _ _ _ ltac:(assumption) X R)]]
  end.

Theorem step_spec st c : wf st ->
  step_ok (fst st) (snd st) (step st c) (spec_step (observe st) c).
Proof.
  destruct st as [h p]. unfold wf, observe. cbn [fst snd]. intros W.
  pose proof (pick_valid h p) as PV. pose proof (pick_contents h p) as PC.
  destruct c; cbn [SliceHeap.step spec_step]; try rewrite <- !PC.
  - (* CLit *) destruct (literal_spec h l _ _ eq_refl) as (X & _ & V & C & _).
    exact (lit_state_ok _ _ (literal h l) _ W X V C).
  - (* CMake *) destruct (make_filled_spec h l extra _ _ eq_refl) as (X & _ & V & C).
    exact (lit_state_ok _ _ (make_filled h l extra) _ W X V C).
  - (* CNew *) destruct (New_spec h (fst (New h)) (snd (New h))) as (X & R); [apply surjective_pairing|].
    exact (push_result_ok' _ _ _ _ W X R).
  - (* CTail *) destruct (Tail_spec h (pick p i) (fst (Tail h (pick p i))) (snd (Tail h (pick p i))) (PV i W))
      as (X & R); [apply surjective_pairing|].
    apply (push_result_ok _ _ _ _ W); [rewrite X; apply heap_extends_refl|exact R].
  - (* CPopLast *) destruct (PopLast_spec h (pick p i) (fst (PopLast h (pick p i))) (snd (PopLast h (pick p i))) (PV i W))
      as (X & R); [apply surjective_pairing|].
    apply (push_result_ok _ _ _ _ W); [rewrite X; apply heap_extends_refl|exact R].
  - (* CTake *) destruct (Take_spec grow grow_ok h n (pick p i) _ _ (PV i W) (surjective_pairing _)) as (X & R).
    exact (push_result_ok _ _ _ _ W X R).
  - (* CSkip *) destruct (Skip_spec grow grow_ok h n (pick p i) _ _ (PV i W) (surjective_pairing _)) as (X & R).
    exact (push_result_ok _ _ _ _ W X R).
  - (* CMap *) destruct (Map_spec grow grow_ok f h (pick p i) _ _ (PV i W) (surjective_pairing _)) as (X & R).
    exact (push_result_ok' _ _ _ _ W X R).
  - (* CMapi *) destruct (Mapi_spec grow grow_ok f h (pick p i) _ _ (PV i W) (surjective_pairing _)) as (X & R).
    exact (push_result_ok' _ _ _ _ W X R).
  - (* CFilter *) destruct (Filter_spec grow grow_ok p0 h (pick p i) _ _ (PV i W) (surjective_pairing _)) as (X & R).
    exact (push_result_ok' _ _ _ _ W X R).
  - (* CSort *) destruct (Sort_spec grow grow_ok sorter sorter_perm h (pick p i) _ _ (PV i W) (surjective_pairing _)) as (X & R).
    exact (push_result_ok' _ _ _ _ W X R).
  - (* CSortBy *) destruct (SortBy_spec grow grow_ok sorter sorter_perm proj h (pick p i) _ _ (PV i W) (surjective_pairing _)) as (X & R).
    exact (push_result_ok' _ _ _ _ W X R).
  - (* CZip *) destruct (Zip_spec grow grow_ok h (pick p i) (pick p j) _ _ (PV i W) (PV j W) (surjective_pairing _)) as (X & R).
    exact (push_result_ok _ _ _ _ W X R).
  - (* CPushLast *) destruct (PushLast_spec grow grow_ok h x (pick p i) _ _ (PV i W) (surjective_pairing _)) as (X & R).
    exact (push_result_ok' _ _ _ _ W X R).
  - (* CPushHead *) destruct (PushHead_spec grow grow_ok h x (pick p i) _ _ (PV i W) (surjective_pairing _)) as (X & R).
    exact (push_result_ok' _ _ _ _ W X R).
  - (* CCollect *) destruct (Collect_spec grow grow_ok (cb_of p f) _ h (pick p i) _ _ (PV i W) (cb_of_ok h p f W) (surjective_pairing _)) as (X & R).
    exact (push_result_ok' _ _ _ _ W X R).
  - (* CConcat *) rewrite <- picks_contents.
    destruct (Concat_spec grow grow_ok h (picks p is) _ _ (picks_valid h p is W) (surjective_pairing _)) as (X & R).
    exact (push_result_ok' _ _ _ _ W X R).
  - (* CAppend *) destruct (Append_spec grow grow_ok h (pick p i) (pick p j) _ _ (PV i W) (PV j W) (surjective_pairing _)) as (X & R).
    exact (push_result_ok' _ _ _ _ W X R).
  - (* CDistinct *) destruct (Distinct_spec grow grow_ok h (pick p i) _ _ (PV i W) (surjective_pairing _)) as (X & R).
    exact (push_result_ok' _ _ _ _ W X R).
  - (* CObserve *) split; [apply heap_extends_refl|]. split; [exact W|]. split; [reflexivity|].
    exists []. rewrite app_nil_r. reflexivity.
Qed.

(** per call: nothing that existed is modified *)
Corollary step_frame st c : wf st -> heap_extends (fst st) (fst (step st c)).
Proof. intros W. apply (step_spec st c W). Qed.

Lemma run_spec_all cs : forall st, wf st ->
  heap_extends (fst st) (fst (run st cs)) /\ wf (run st cs) /\
  observe (run st cs) = spec_run (observe st) cs /\ exists new, snd (run st cs) = snd st ++ new.
Proof.
  induction cs as [|c cs IH]; intros st W; cbn [SliceHeap.run fold_left spec_run].
  - split; [apply heap_extends_refl|]. split; [exact W|]. split; [reflexivity|].
    exists []. rewrite app_nil_r. reflexivity.
  - destruct (step_spec st c W) as (X1 & W1 & O1 & (n1 & P1)).
    destruct (IH (step st c) W1) as (X2 & W2 & O2 & (n2 & P2)).
    split; [eapply heap_extends_trans; eauto|]. split; [exact W2|].
    split; [unfold SliceHeap.run in O2; rewrite O2, O1; reflexivity|].
    exists (n1 ++ n2). unfold SliceHeap.run in P2. rewrite P2, P1, app_assoc. reflexivity.
Qed.

Lemma wf_init : wf init. Proof. constructor. Qed.

(** C12: for every growth policy and every history [before ++ after], every slice value v that is
    in the pool after [before] (i.e. was created by one of those calls) is still in the pool
    under the same index and has, after the whole history, the contents it had then *)
Theorem history_preserves_contents before after i v :
  nth_error (snd (run init before)) i = Some v ->
  nth_error (snd (run init (before ++ after))) i = Some v /\
  contents (fst (run init (before ++ after))) v = contents (fst (run init before)) v.
Proof.
  intros N.
  assert (RA : run init (before ++ after) = run (run init before) after)
    by (unfold SliceHeap.run; apply fold_left_app).
  rewrite RA.
  destruct (run_spec_all before init wf_init) as (_ & W1 & _ & _).
  destruct (run_spec_all after (run init before) W1) as (X & _ & _ & (new & P)).
  split.
  - rewrite P. rewrite nth_error_app1; [exact N|]. apply nth_error_Some. congruence.
  - apply extends_contents; [exact X|]. unfold wf in W1. rewrite Forall_forall in W1.
    apply W1. eapply nth_error_In, N.
Qed.

(** ... in particular right at creation: the value produced by the last call of [before] *)
Corollary history_preserves_contents_observe before after i l :
  nth_error (observe (run init before)) i = Some l ->
  nth_error (observe (run init (before ++ after))) i = Some l.
Proof.
  unfold observe. intros N. rewrite nth_error_map in N |- *.
  destruct (nth_error (snd (run init before)) i) as [v|] eqn:E; [|discriminate].
  destruct (history_preserves_contents before after i v E) as (-> & C). cbn in *. rewrite C. exact N.
Qed.

(** the heap implementation refines the pure list semantics *)
Theorem run_refines_lists cs : observe (run init cs) = spec_run [] cs.
Proof. apply (run_spec_all cs init wf_init). Qed.
End Grow.

(** contents never depend on the growth policy of append *)
Corollary contents_independent_of_grow grow1 grow2 :
  (forall c n, n <= grow1 c n) -> (forall c n, n <= grow2 c n) ->
  forall cs, observe (SliceHeap.run grow1 sorter init cs) = observe (SliceHeap.run grow2 sorter init cs).
Proof. intros G1 G2 cs. rewrite (run_refines_lists grow1 G1), (run_refines_lists grow2 G2). reflexivity. Qed.
End History.

(** The code before the repair of PushLast (append in place) violated the property: *)
Example poplast_pushlast_old_refuted :
  let cs := [CLit [VI 1; VI 2; VI 3]; CPopLast 0; CPushLast (VI 9) 1] in
  let st2 := fold_left (step_OLD grow_double isort_by) (firstn 2 cs) init in
  let st3 := fold_left (step_OLD grow_double isort_by) cs init in
  nth 0 (observe st2) [] = [VI 1; VI 2; VI 3] /\ nth 0 (observe st3) [] = [VI 1; VI 2; VI 9].
Proof. vm_compute. split; reflexivity. Qed.
(** ... also without any shortening: two extensions of one value with spare capacity *)
Example double_pushlast_old_refuted :
  let cs := [CMake [VI 1] 2; CPushLast (VI 2) 0; CPushLast (VI 3) 0] in
  let st2 := fold_left (step_OLD grow_double isort_by) (firstn 2 cs) init in
  let st3 := fold_left (step_OLD grow_double isort_by) cs init in
  nth 1 (observe st2) [] = [VI 1; VI 2] /\ nth 1 (observe st3) [] = [VI 1; VI 3].
Proof. vm_compute. split; reflexivity. Qed.
(** the repaired code on the same histories *)
Example poplast_pushlast_now :
  let cs := [CLit [VI 1; VI 2; VI 3]; CPopLast 0; CPushLast (VI 9) 1] in
  observe (run grow_double isort_by init cs) = [[VI 1; VI 2; VI 3]; [VI 1; VI 2]; [VI 1; VI 2; VI 9]].
Proof. vm_compute. reflexivity. Qed.
