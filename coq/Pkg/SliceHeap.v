(** C12/C13 — operational model of pkg/slice/slice.go over a heap of arrays.
    Definitions only (the proofs are in SliceHeapProofs.v / SliceHistory.v).

    heap   = list of arrays, an array = list of values (never shrinks, never moves)
    slice  = (array id or nil, offset, length, capacity)            — Go's slice header
    append = in place when the capacity suffices, otherwise a fresh array of capacity
             [grow oldcap needed]; [grow] is a Section variable (hypothesis in the proofs:
             needed <= grow oldcap needed), so nothing depends on the runtime's growth policy
    slices.SortFunc = overwrite the cells of the given slice with [sorter key contents];
             [sorter] is a Section variable (hypotheses in the proofs: a permutation, ascending
             by key), instantiated by insertion sort for the oracle
    panics are an explicit outcome. *)
From Coq Require Import List Arith Lia Bool ZArith.
Import ListNotations.

(** Values stored in arrays: Go ints (strings are order-embedded into ints by the harness) and
    frt.Tuple2 (for Zip). *)
Inductive val := VI (z : Z) | VP (a b : val).
Definition vdef : val := VI 0.                       (* Go zero value *)
Fixpoint val_eqb (x y : val) : bool :=
  match x, y with
  | VI a, VI b => Z.eqb a b
  | VP a b, VP c d => val_eqb a c && val_eqb b d
  | _, _ => false
  end.
(** ordering key used by cmp.Compare on ordered element types (ints) *)
Definition vkey (v : val) : Z := match v with VI z => z | VP _ _ => 0%Z end.

Definition arr := list val.
Definition heap := list arr.
Record slice := mk { sarr : option nat; soff : nat; slen : nat; scap : nat }.
Definition nilslice := mk None 0 0 0.

Inductive panic := PIndex            (* runtime error: index out of range *)
                 | PBounds           (* runtime error: slice bounds out of range *)
                 | PHeadEmpty        (* panic("call Head to empty list") *)
                 | PTailEmpty        (* panic("call Tail to empty list") *)
                 | PZipLen.          (* panic("zip with different length slices.") *)
Inductive result (A : Type) := Ok (a : A) | Panic (p : panic).
Arguments Ok {A} a. Arguments Panic {A} p.

Definition getarr (h : heap) (a : nat) : arr := nth a h [].
Definition contents (h : heap) (s : slice) : list val :=
  match sarr s with
  | None => []
  | Some a => firstn (slen s) (skipn (soff s) (getarr h a))
  end.
(** s[i] for an index already known to be in range (the bounds check is explicit where Go has one) *)
Definition get (h : heap) (s : slice) (i : nat) : val :=
  match sarr s with Some a => nth (soff s + i) (getarr h a) vdef | None => vdef end.

Fixpoint upd {A} (l : list A) (i : nat) (x : A) : list A :=
  match l, i with
  | [], _ => []
  | _ :: t, O => x :: t
  | y :: t, S i => y :: upd t i x
  end.
(** overwrite cells i, i+1, ... of an array with xs (memmove) *)
Definition splice (l : arr) (i : nat) (xs : list val) : arr :=
  firstn i l ++ xs ++ skipn (i + length xs) l.
Definition zeros (k : nat) : arr := repeat vdef k.
(** allocate a new array; its id is the old heap size *)
Definition alloc (h : heap) (a : arr) : heap := h ++ [a].

Section Model.
Variable grow : nat -> nat -> nat.                         (* old capacity, needed length *)
Variable sorter : (val -> Z) -> list val -> list val.      (* slices.SortFunc's permutation *)

(** Go: append(s, xs...) *)
Definition appendN (h : heap) (s : slice) (xs : list val) : heap * slice :=
  let need := slen s + length xs in
  if need <=? scap s then
    match sarr s with
    | Some a => (upd h a (splice (getarr h a) (soff s + slen s) xs),
                 mk (Some a) (soff s) need (scap s))
    | None => (h, s)
    end
  else
    let c := grow (scap s) need in
    (alloc h (contents h s ++ xs ++ zeros (c - need)), mk (Some (length h)) 0 need c).
Definition append1 (h : heap) (s : slice) (x : val) : heap * slice := appendN h s [x].

(** slices.SortFunc(s, cmp by key): permutes the cells of s in place *)
Definition sort_inplace (key : val -> Z) (h : heap) (s : slice) : heap :=
  match sarr s with
  | Some a => upd h a (splice (getarr h a) (soff s) (sorter key (contents h s)))
  | None => h
  end.

(** composite literal []T{x1..xn}: fresh array, len = cap = n *)
Definition literal (h : heap) (l : list val) : heap * slice :=
  (alloc h l, mk (Some (length h)) 0 (length l) (length l)).
(** make([]T, 0, c) *)
Definition make0 (h : heap) (c : nat) : heap * slice :=
  (alloc h (zeros c), mk (Some (length h)) 0 0 c).
(** a value with spare capacity, as user code may hold: make([]T, n, n+extra) filled with l *)
Definition make_filled (h : heap) (l : list val) (extra : nat) : heap * slice :=
  (alloc h (l ++ zeros extra), mk (Some (length h)) 0 (length l) (length l + extra)).

(** for i, e := range s { body }   with an extra loop-carried state [st];
    the slice header is evaluated once, elements are read live at each iteration *)
Fixpoint range_loop {St : Type}
    (body : nat -> val -> St -> heap -> slice -> St * heap * slice)
    (k i : nat) (st : St) (h : heap) (res s : slice) : St * heap * slice :=
  match k with
  | O => (st, h, res)
  | S k =>
      let e := get h s i in
      let '(st1, h1, res1) := body i e st h res in
      range_loop body k (S i) st1 h1 res1 s
  end.
Definition keep {St : Type} (st : St) (p : heap * slice) : St * heap * slice := (st, fst p, snd p).

(* ------------------------------------------------------------------ the 29 functions *)
Definition Length (h : heap) (s : slice) : Z := Z.of_nat (slen s).
Definition Len (h : heap) (s : slice) : Z := Z.of_nat (slen s).
Definition New (h : heap) : heap * result slice :=
  let '(h1, s) := literal h [] in (h1, Ok s).
Definition Item (h : heap) (index : Z) (s : slice) : result val :=
  if (index <? 0)%Z || (Z.of_nat (slen s) <=? index)%Z then Panic PIndex
  else Ok (get h s (Z.to_nat index)).
Definition IsEmpty (h : heap) (s : slice) : bool := slen s =? 0.
Definition IsNotEmpty (h : heap) (s : slice) : bool := negb (slen s =? 0).
Definition Last (h : heap) (s : slice) : result val :=
  if slen s =? 0 then Panic PIndex else Ok (get h s (slen s - 1)).
Definition Head (h : heap) (s : slice) : result val :=
  if slen s =? 0 then Panic PHeadEmpty else Ok (get h s 0).
Definition Tail (h : heap) (s : slice) : heap * result slice :=
  if slen s =? 0 then (h, Panic PTailEmpty)
  else (h, Ok (mk (sarr s) (S (soff s)) (slen s - 1) (scap s - 1))).       (* s[1:] *)
Definition PopLast (h : heap) (s : slice) : heap * result slice :=
  if slen s =? 0 then (h, Panic PBounds)                                   (* s[0:-1] *)
  else (h, Ok (mk (sarr s) (soff s) (slen s - 1) (scap s))).               (* s[0:len-1] *)

(** k iterations of  res = append(res, s[i]); i++   with Go's bounds check on s[i] *)
Fixpoint copy_loop (k i : nat) (h : heap) (res s : slice) : heap * result slice :=
  match k with
  | O => (h, Ok res)
  | S k =>
      if i <? slen s then
        let '(h1, res1) := append1 h res (get h s i) in copy_loop k (S i) h1 res1 s
      else (h, Panic PIndex)
  end.
(** for i := 0; i < num; i++ *)
Definition Take (h : heap) (num : Z) (s : slice) : heap * result slice :=
  copy_loop (Z.to_nat num) 0 h nilslice s.
(** for i := count; i < len(s); i++ : no iteration when count >= len; a negative count is
    smaller than len, so the first iteration indexes s[count] and panics *)
Definition Skip (h : heap) (count : Z) (s : slice) : heap * result slice :=
  if (Z.of_nat (slen s) <=? count)%Z then (h, Ok nilslice)
  else if (count <? 0)%Z then (h, Panic PIndex)
  else copy_loop (slen s - Z.to_nat count) (Z.to_nat count) h nilslice s.

Definition Map (f : val -> val) (h : heap) (s : slice) : heap * result slice :=
  let '(_, h1, res) :=
    range_loop (fun _ e (st : unit) h res => keep st (append1 h res (f e))) (slen s) 0 tt h nilslice s in
  (h1, Ok res).
Definition Mapi (f : Z -> val -> val) (h : heap) (s : slice) : heap * result slice :=
  let '(_, h1, res) :=
    range_loop (fun i e (st : unit) h res => keep st (append1 h res (f (Z.of_nat i) e)))
               (slen s) 0 tt h nilslice s in
  (h1, Ok res).
(** Iter: the observable is the sequence of arguments the action is called with *)
Fixpoint iter_loop (k i : nat) (h : heap) (s : slice) : list val :=
  match k with O => [] | S k => get h s i :: iter_loop k (S i) h s end.
Definition Iter (h : heap) (s : slice) : list val := iter_loop (slen s) 0 h s.
Definition Filter (pred : val -> bool) (h : heap) (s : slice) : heap * result slice :=
  let '(_, h1, res) :=
    range_loop (fun _ e (st : unit) h res => if pred e then keep st (append1 h res e) else (st, h, res))
               (slen s) 0 tt h nilslice s in
  (h1, Ok res).
(** res := append(s[:0:0], s...); slices.SortFunc(res, ...) *)
Definition SortBy (proj : val -> Z) (h : heap) (s : slice) : heap * result slice :=
  let '(h1, res) := appendN h (mk (sarr s) (soff s) 0 0) (contents h s) in
  (sort_inplace proj h1 res, Ok res).
Definition Sort (h : heap) (s : slice) : heap * result slice := SortBy vkey h s.
Definition Zip (h : heap) (s1 s2 : slice) : heap * result slice :=
  if negb (slen s1 =? slen s2) then (h, Panic PZipLen)
  else
    let '(_, h1, res) :=
      range_loop (fun i e (st : unit) h res => keep st (append1 h res (VP e (get h s2 i))))
                 (slen s1) 0 tt h nilslice s1 in
    (h1, Ok res).
Fixpoint forall_loop (pred : val -> bool) (k i : nat) (h : heap) (s : slice) : bool :=
  match k with
  | O => true
  | S k => if negb (pred (get h s i)) then false else forall_loop pred k (S i) h s
  end.
Definition Forall (pred : val -> bool) (h : heap) (s : slice) : bool := forall_loop pred (slen s) 0 h s.
Fixpoint forany_loop (pred : val -> bool) (k i : nat) (h : heap) (s : slice) : bool :=
  match k with
  | O => false
  | S k => if pred (get h s i) then true else forany_loop pred k (S i) h s
  end.
Definition Forany (pred : val -> bool) (h : heap) (s : slice) : bool := forany_loop pred (slen s) 0 h s.
(** res := make([]T, 0, len(s)+1); res = append(res, s...); return append(res, elem) *)
Definition PushLast (h : heap) (elem : val) (s : slice) : heap * result slice :=
  let '(h1, res) := make0 h (slen s + 1) in
  let '(h2, res2) := appendN h1 res (contents h1 s) in
  let '(h3, res3) := append1 h2 res2 elem in
  (h3, Ok res3).
(** the code before the repair: return append(s, elem) — kept only for the documentation Example *)
Definition PushLast_OLD_append_in_place (h : heap) (elem : val) (s : slice) : heap * result slice :=
  let '(h1, res) := append1 h s elem in (h1, Ok res).
Definition PushHead (h : heap) (elem : val) (s : slice) : heap * result slice :=
  let '(h1, ret) := literal h [elem] in
  let '(h2, res) := appendN h1 ret (contents h1 s) in
  (h2, Ok res).
(** a callback returning a slice may allocate (fresh literal) or return a slice it holds *)
Definition callback := heap -> val -> heap * slice.
Definition Collect (f : callback) (h : heap) (s : slice) : heap * result slice :=
  let '(_, h1, res) :=
    range_loop (fun _ e (st : unit) h res =>
                  let '(h1, one) := f h e in keep st (appendN h1 res (contents h1 one)))
               (slen s) 0 tt h nilslice s in
  (h1, Ok res).
(** the outer slice [][]T is only read: it is given as the sequence of its slice headers *)
Fixpoint concat_loop (ss : list slice) (h : heap) (res : slice) : heap * slice :=
  match ss with
  | [] => (h, res)
  | s :: t => let '(h1, res1) := appendN h res (contents h s) in concat_loop t h1 res1
  end.
Definition Concat (h : heap) (ss : list slice) : heap * result slice :=
  let '(h1, res) := concat_loop ss h nilslice in (h1, Ok res).
Definition Append (h : heap) (s1 s2 : slice) : heap * result slice :=
  let '(h1, res1) := appendN h nilslice (contents h s1) in
  let '(h2, res2) := appendN h1 res1 (contents h1 s2) in
  (h2, Ok res2).
(** set := make(map[T]bool) is a loop-carried list of the keys inserted so far *)
Definition Distinct (h : heap) (s : slice) : heap * result slice :=
  let '(h0, res0) := literal h [] in
  let '(_, h1, res) :=
    range_loop (fun _ e (set : list val) h res =>
                  if existsb (val_eqb e) set then (set, h, res)
                  else keep (e :: set) (append1 h res e))
               (slen s) 0 [] h0 res0 s in
  (h1, Ok res).
Fixpoint tryfind_loop (pred : val -> bool) (k i : nat) (h : heap) (s : slice) : val * bool :=
  match k with
  | O => (vdef, false)
  | S k => let e := get h s i in if pred e then (e, true) else tryfind_loop pred k (S i) h s
  end.
Definition TryFind (pred : val -> bool) (h : heap) (s : slice) : val * bool :=
  tryfind_loop pred (slen s) 0 h s.
Fixpoint fold_loop (folder : val -> val -> val) (k i : nat) (stat : val) (h : heap) (s : slice) : val :=
  match k with
  | O => stat
  | S k => fold_loop folder k (S i) (folder stat (get h s i)) h s
  end.
Definition Fold (folder : val -> val -> val) (iniS : val) (h : heap) (s : slice) : val :=
  fold_loop folder (slen s) 0 iniS h s.

(* ------------------------------------------------------------------ histories (C12) *)
(** One call of a history. Slice arguments are indices into the pool of all slice values
    produced so far; function arguments are arbitrary total functions. *)
Inductive cbk :=
| CbFresh (g : val -> list val)         (* returns a fresh literal *)
| CbPick (js : list nat).               (* returns one of the pool values js, chosen by the element *)
Inductive call :=
| CLit (l : list val)                    (* a literal *)
| CMake (l : list val) (extra : nat)     (* a value with spare capacity *)
| CNew
| CTail (i : nat) | CPopLast (i : nat)
| CTake (n : Z) (i : nat) | CSkip (n : Z) (i : nat)
| CMap (f : val -> val) (i : nat) | CMapi (f : Z -> val -> val) (i : nat)
| CFilter (p : val -> bool) (i : nat)
| CSort (i : nat) | CSortBy (proj : val -> Z) (i : nat)
| CZip (i j : nat)
| CPushLast (x : val) (i : nat) | CPushHead (x : val) (i : nat)
| CCollect (f : cbk) (i : nat)
| CConcat (is : list nat)
| CAppend (i j : nat)
| CDistinct (i : nat)
| CObserve (i : nat).                    (* Length, Len, Item, IsEmpty, IsNotEmpty, Last, Head, Iter,
                                            Forall, Forany, TryFind, Fold: return no slice and, by
                                            their type in this model, no heap *)
Definition pool := list slice.
Definition pick (p : pool) (i : nat) : slice := nth i p nilslice.
Definition picks (p : pool) (is : list nat) : list slice := map (pick p) is.
Definition pick_index (n : nat) (e : val) : nat := Z.to_nat (Z.abs (vkey e)) mod n.
Definition cb_fresh (g : val -> list val) : callback := fun h e => literal h (g e).
Definition cb_pick (sl : list slice) : callback :=
  fun h e => (h, nth (pick_index (length sl) e) sl nilslice).
Definition cb_of (p : pool) (f : cbk) : callback :=
  match f with CbFresh g => cb_fresh g | CbPick js => cb_pick (picks p js) end.

Definition state := (heap * pool)%type.
Definition push_result (p : pool) (r : heap * result slice) : state :=
  match snd r with Ok s => (fst r, p ++ [s]) | Panic _ => (fst r, p) end.
Definition lit_state (p : pool) (r : heap * slice) : state := (fst r, p ++ [snd r]).
Definition step (st : state) (c : call) : state :=
  let '(h, p) := st in
  match c with
  | CLit l => lit_state p (literal h l)
  | CMake l extra => lit_state p (make_filled h l extra)
  | CNew => push_result p (New h)
  | CTail i => push_result p (Tail h (pick p i))
  | CPopLast i => push_result p (PopLast h (pick p i))
  | CTake n i => push_result p (Take h n (pick p i))
  | CSkip n i => push_result p (Skip h n (pick p i))
  | CMap f i => push_result p (Map f h (pick p i))
  | CMapi f i => push_result p (Mapi f h (pick p i))
  | CFilter f i => push_result p (Filter f h (pick p i))
  | CSort i => push_result p (Sort h (pick p i))
  | CSortBy f i => push_result p (SortBy f h (pick p i))
  | CZip i j => push_result p (Zip h (pick p i) (pick p j))
  | CPushLast x i => push_result p (PushLast h x (pick p i))
  | CPushHead x i => push_result p (PushHead h x (pick p i))
  | CCollect f i => push_result p (Collect (cb_of p f) h (pick p i))
  | CConcat is => push_result p (Concat h (picks p is))
  | CAppend i j => push_result p (Append h (pick p i) (pick p j))
  | CDistinct i => push_result p (Distinct h (pick p i))
  | CObserve _ => (h, p)
  end.
Definition run (st : state) (cs : list call) : state := fold_left step cs st.
Definition init : state := ([], []).
(** the observable of C12: the contents of every pool value *)
Definition observe (st : state) : list (list val) := map (contents (fst st)) (snd st).
(** contents of every pool value after each call *)
Fixpoint trace (st : state) (cs : list call) : list (list (list val)) :=
  match cs with
  | [] => []
  | c :: t => let st1 := step st c in observe st1 :: trace st1 t
  end.
(** the same history with the OLD PushLast, for the documentation Example *)
Definition step_OLD (st : state) (c : call) : state :=
  match c with
  | CPushLast x i => let '(h, p) := st in push_result p (PushLast_OLD_append_in_place h x (pick p i))
  | _ => step st c
  end.
End Model.

(* ------------------------------------------------------------------ oracle instances *)
Fixpoint insert_by (key : val -> Z) (x : val) (l : list val) : list val :=
  match l with
  | [] => [x]
  | y :: t => if (key x <=? key y)%Z then x :: y :: t else y :: insert_by key x t
  end.
(** stable insertion sort: one sorting permutation (Go's pdqsort gives some sorting permutation) *)
Definition isort_by (key : val -> Z) (l : list val) : list val :=
  fold_right (insert_by key) [] l.
Definition grow_double (c need : nat) : nat := Nat.max need (2 * c).
Definition grow_exact (c need : nat) : nat := need.

(** decidable check used by the oracle on the implementation's SortBy output:
    [out] is ascending by key and a permutation of [inp] *)
Fixpoint sorted_byb (key : val -> Z) (l : list val) : bool :=
  match l with
  | [] => true
  | x :: t => match t with [] => true | y :: _ => (key x <=? key y)%Z && sorted_byb key t end
  end.
Fixpoint remove_one (x : val) (l : list val) : option (list val) :=
  match l with
  | [] => None
  | y :: t => if val_eqb x y then Some t
              else match remove_one x t with Some t' => Some (y :: t') | None => None end
  end.
Fixpoint permb (l1 l2 : list val) : bool :=
  match l1 with
  | [] => match l2 with [] => true | _ => false end
  | x :: t => match remove_one x l2 with Some l2' => permb t l2' | None => false end
  end.
Definition sorted_permb (key : val -> Z) (inp out : list val) : bool :=
  sorted_byb key out && permb inp out.

(* ------------------------------------------------------------------ List-level specifications *)
(** what each slice-returning function computes on contents (C13), as a function on lists *)
Definition spec_tail (l : list val) : result (list val) :=
  match l with [] => Panic PTailEmpty | _ :: t => Ok t end.
Definition spec_poplast (l : list val) : result (list val) :=
  match l with [] => Panic PBounds | _ => Ok (removelast l) end.
Definition spec_take (n : Z) (l : list val) : result (list val) :=
  if (n <=? Z.of_nat (length l))%Z then Ok (firstn (Z.to_nat n) l) else Panic PIndex.
Definition spec_skip (n : Z) (l : list val) : result (list val) :=
  if (Z.of_nat (length l) <=? n)%Z then Ok []
  else if (n <? 0)%Z then Panic PIndex else Ok (skipn (Z.to_nat n) l).
Fixpoint mapi_from (f : Z -> val -> val) (i : nat) (l : list val) : list val :=
  match l with [] => [] | x :: t => f (Z.of_nat i) x :: mapi_from f (S i) t end.
Definition spec_zip (l1 l2 : list val) : result (list val) :=
  if negb (length l1 =? length l2) then Panic PZipLen
  else Ok (map (fun ab => VP (fst ab) (snd ab)) (combine l1 l2)).
(** first occurrences, in order *)
Fixpoint dedup (seen : list val) (l : list val) : list val :=
  match l with
  | [] => []
  | x :: t => if existsb (val_eqb x) seen then dedup seen t else x :: dedup (x :: seen) t
  end.
Definition spec_item (i : Z) (l : list val) : result val :=
  if (i <? 0)%Z || (Z.of_nat (length l) <=? i)%Z then Panic PIndex else Ok (nth (Z.to_nat i) l vdef).
Definition spec_last (l : list val) : result val :=
  match l with [] => Panic PIndex | _ => Ok (last l vdef) end.
Definition spec_head (l : list val) : result val :=
  match l with [] => Panic PHeadEmpty | x :: _ => Ok x end.
Definition spec_tryfind (p : val -> bool) (l : list val) : val * bool :=
  match find p l with Some e => (e, true) | None => (vdef, false) end.
