(** C14 — proofs about the model of pkg/frt (Frt.v): Pipe, the thunk-taking conditionals, tuples,
    toS / SInterP totality, and the fmt facts the driver model (SampleMd) needs. *)
From Coq Require Import List Ascii String ZArith Bool Lia DecimalString DecimalZ DecimalPos.
From FoVerif Require Import Pkg.Buf Pkg.Frt.
Import ListNotations.

(** * Pipe *)

Theorem pipe_is_application : forall (T U : Type) (x : T) (f : T -> U), Pipe x f = f x.
Proof. reflexivity. Qed.

Theorem pipe_unit_is_application : forall (E T : Type) (x : T) (f : T -> eff E unit) tr,
  PipeUnit x f tr = f x tr.
Proof. reflexivity. Qed.

(** * conditionals: exactly the chosen thunk runs *)

Theorem ifelse_runs_chosen : forall (E T : Type) (c : bool) (t f : eff E T) tr,
  IfElse c t f tr = (if c then t tr else f tr).
Proof. reflexivity. Qed.

(** on thunks that log their own events: the trace grows by the events of the chosen thunk and
    by nothing else, and the value is the chosen thunk's *)
Theorem ifelse_runs_exactly_one : forall (E T : Type) (c : bool) (e1 e2 : list E) (v1 v2 : T) tr,
  IfElse c (logging e1 v1) (logging e2 v2) tr = (tr ++ (if c then e1 else e2), if c then v1 else v2).
Proof. intros. destruct c; reflexivity. Qed.

Theorem ifelseunit_runs_exactly_one : forall (E : Type) (c : bool) (e1 e2 : list E) tr,
  IfElseUnit c (logging e1 tt) (logging e2 tt) tr = (tr ++ (if c then e1 else e2), tt).
Proof. intros. destruct c; reflexivity. Qed.

Theorem ifonly_runs_at_most_one : forall (E : Type) (c : bool) (e1 : list E) tr,
  IfOnly c (logging e1 tt) tr = (tr ++ (if c then e1 else []), tt).
Proof. intros. destruct c; cbn; [reflexivity|]. rewrite app_nil_r. reflexivity. Qed.

(** * tuples *)

Theorem tuple2_roundtrips : forall (T U : Type) (a : T) (b0 : U) (t : Tuple2 T U),
  Fst (NewTuple2 a b0) = a /\ Snd (NewTuple2 a b0) = b0 /\ Destr2 (NewTuple2 a b0) = (a, b0) /\
  NewTuple2 (Fst t) (Snd t) = t /\ (let '(x, y) := Destr2 t in NewTuple2 x y) = t.
Proof. intros. destruct t. repeat split. Qed.

Theorem tuple3_roundtrips : forall (T U W : Type) (a : T) (b0 : U) (c : W) (t : Tuple3 T U W),
  Destr3 (NewTuple3 a b0 c) = (a, b0, c) /\ (let '(x, y, z) := Destr3 t in NewTuple3 x y z) = t.
Proof. intros. destruct t. repeat split. Qed.

(** * decimal printing is the decimal numeral: reading it back gives the integer *)

Lemma pos_to_uint_nonnil : forall p, Pos.to_uint p <> Decimal.Nil.
Proof.
  intros p H. pose proof (DecimalPos.Unsigned.of_to p) as R. rewrite H in R. discriminate.
Qed.

Theorem dec_reads_back : forall z, z_of_dec (dec z) = z.
Proof.
  intro z. unfold z_of_dec, dec, b. rewrite string_of_list_ascii_of_string.
  rewrite NilZero.isi.
  - apply DecimalZ.of_to.
  - destruct z; cbn; try discriminate. intro H. inversion H. eapply pos_to_uint_nonnil; eauto.
  - destruct z; cbn; try discriminate. intro H. inversion H. eapply pos_to_uint_nonnil; eauto.
Qed.

(** * toS never panics, and renders every kind as promised *)

Theorem to_s_total : forall v, exists s, toS v = Ok s.
Proof. intro v. destruct v as [k z|k z|[|] f g|s|x|l|l]; cbn; eauto. Qed.

Theorem to_s_renders : forall v,
  toS v = Ok (match v with
              | GInt _ z | GUint _ z => dec z
              | GFloat _ f _ => f
              | GStr s => s
              | _ => fmt_v v
              end).
Proof. intro v. destruct v as [k z|k z|[|] f g|s|x|l|l]; reflexivity. Qed.

Lemma map_toS_total : forall args, exists l, map_toS toS args = Ok l /\ List.length l = List.length args /\
  Forall (fun x => exists s, x = GStr s) l.
Proof.
  induction args as [|a r [l [E [L F]]]].
  - exists []. repeat split; constructor.
  - destruct (to_s_total a) as [s Es]. exists (GStr s :: l). cbn. rewrite Es. cbn. rewrite E. cbn.
    repeat split; [congruence|]. constructor; eauto.
Qed.

Theorem sinterp_total : forall f args, exists r, SInterP f args = Ok r.
Proof.
  intros f args. destruct (map_toS_total args) as [l [E _]].
  unfold SInterP, SInterP_with. rewrite E. cbn. eauto.
Qed.

(** a format made of text, %% and %s / %v, one verb per operand, is always filled in *)
Lemma sprintf_strings : forall n f l, List.length f <= n ->
  Forall (fun x => exists s, x = GStr s) l ->
  count_sv f = Some (List.length l) -> exists r, sprintf f l = Some r.
Proof.
  induction n as [|n IH]; intros f l Ln Fl C.
  - destruct f; [|cbn in Ln; lia]. cbn in C. destruct l; [cbn; eauto|discriminate].
  - destruct f as [|c f1].
    + cbn in C. destruct l; [cbn; eauto|discriminate].
    + cbn [sprintf count_sv] in *. destruct (Ascii.eqb c "%").
      * destruct f1 as [|verb f2]; [discriminate|].
        destruct (Ascii.eqb verb "%") eqn:Ev.
        -- destruct (IH f2 l) as [r E]; [cbn in Ln; lia|assumption|assumption|]. rewrite E. cbn. eauto.
        -- destruct (Ascii.eqb verb "s" || Ascii.eqb verb "v") eqn:Esv; [|discriminate].
           destruct (count_sv f2) as [m|] eqn:Cm; [|discriminate]. cbn in C.
           destruct l as [|a l']; [discriminate|]. inversion Fl as [|? ? [s ->] Fl']; subst.
           destruct (IH f2 l') as [r E]; [cbn in Ln; lia|assumption|cbn in C; congruence|].
           rewrite E. unfold fmt_verb.
           destruct (Ascii.eqb verb "v"); [eauto|].
           destruct (Ascii.eqb verb "d") eqn:Ed.
           ++ apply Ascii.eqb_eq in Ed. subst verb. cbn in Esv. discriminate.
           ++ destruct (Ascii.eqb verb "s"); [eauto|]. cbn in Esv. discriminate.
      * destruct (IH f1 l) as [r E]; [cbn in Ln; lia|assumption|assumption|]. rewrite E. cbn. eauto.
Qed.

Theorem sinterp_wellformed : forall f args,
  count_sv f = Some (List.length args) -> exists s, SInterP f args = Ok (Some s).
Proof.
  intros f args C. destruct (map_toS_total args) as [l [E [L F]]].
  unfold SInterP, SInterP_with. rewrite E. cbn.
  destruct (sprintf_strings (List.length f) f l) as [r Er]; [lia|assumption|congruence|].
  rewrite Er. eauto.
Qed.

(** * fmt facts used by the driver model: text%stext with a string operand *)

Definition no_percent (s : bytes) : Prop := ~ In "%"%char s.

Lemma sprintf_text : forall s, no_percent s -> sprintf s [] = Some s.
Proof.
  induction s as [|c s IH]; intro H; [reflexivity|].
  cbn [sprintf]. destruct (Ascii.eqb c "%") eqn:E.
  - apply Ascii.eqb_eq in E. subst c. exfalso. apply H. left. reflexivity.
  - rewrite IH; [reflexivity|]. intro Hin. apply H. right. exact Hin.
Qed.

Lemma sprintf_prefix : forall pre f args, no_percent pre ->
  sprintf (pre ++ f) args = option_map (app pre) (sprintf f args).
Proof.
  induction pre as [|c pre IH]; intros f args H.
  - cbn. destruct (sprintf f args); reflexivity.
  - cbn [app sprintf]. destruct (Ascii.eqb c "%") eqn:E.
    + apply Ascii.eqb_eq in E. subst c. exfalso. apply H. left. reflexivity.
    + rewrite IH by (intro Hin; apply H; right; exact Hin).
      destruct (sprintf f args); reflexivity.
Qed.

Theorem sprintf1_string : forall pre post s, no_percent pre -> no_percent post ->
  Sprintf1 (pre ++ b "%s" ++ post) (GStr s) = Some (pre ++ s ++ post).
Proof.
  intros pre post s Hp Hq. unfold Sprintf1. rewrite sprintf_prefix by assumption.
  cbn [b list_ascii_of_string app sprintf]. cbn [Ascii.eqb Bool.eqb]. cbn [fmt_verb Ascii.eqb Bool.eqb].
  rewrite sprintf_text by assumption. reflexivity.
Qed.

(** * documentation: before the repair an unsigned operand made toS (hence SInterP) panic *)

Example to_s_old_panics_on_unsigned :
  exists m, toS_old (GUint KUint8 7) = Panic m /\
            SInterP_old (b "%s") [GUint KUint64 18446744073709551615] = Panic m.
Proof. eexists. split; reflexivity. Qed.

Example to_s_now_formats_unsigned :
  SInterP (b "n=%s") [GUint KUint64 18446744073709551615] = Ok (Some (b "n=18446744073709551615")).
Proof. vm_compute. reflexivity. Qed.
