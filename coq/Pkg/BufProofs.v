(** C14 — a buffer accumulates its writes in order, whatever happens to other buffers
    (model: Buf.v), over all operation histories. *)
From Coq Require Import List Ascii Arith Bool Lia.
From FoVerif Require Import Pkg.Buf.
Import ListNotations.

Lemma upd_length : forall {A} (l : list A) i x, List.length (upd l i x) = List.length l.
Proof. induction l as [|a l IH]; intros i x; destruct i; cbn; auto. Qed.

Lemma nth_upd : forall {A} (l : list A) i j x d, i < List.length l ->
  nth j (upd l i x) d = if j =? i then x else nth j l d.
Proof.
  induction l as [|a l IH]; intros i j x d H; cbn in H; [lia|].
  destruct i, j; cbn; try reflexivity.
  apply IH. lia.
Qed.

Lemma nth_error_nth_d : forall {A} (l : list A) i x d, nth_error l i = Some x -> nth i l d = x.
Proof. induction l as [|a l IH]; intros i x d H; destruct i; cbn in *; try discriminate; [congruence|eauto]. Qed.

(** the store after a history: one more buffer per New, and every buffer holds what it held
    before followed by the strings written to it, in order *)
Lemma brun_store : forall ops st,
  List.length (fst (brun st ops)) = List.length st + news ops /\
  forall id, nth id (fst (brun st ops)) [] = nth id st [] ++ spec_content id (List.length st) ops.
Proof.
  induction ops as [|o ops IH]; intro st.
  - cbn. split; [lia|]. intro id. rewrite app_nil_r. reflexivity.
  - cbn [brun]. destruct (bstep st o) as [st1 x] eqn:E.
    specialize (IH st1). destruct (brun st1 ops) as [st2 xs] eqn:E2. cbn [fst] in *.
    destruct IH as [IHl IHc].
    destruct o as [|j s|j]; cbn [bstep] in E.
    + (* New *) injection E as E1 E3; subst st1 x. rewrite app_length in IHl. cbn [List.length news] in *. split; [lia|].
      intro id. rewrite IHc. rewrite app_length. cbn [List.length spec_content].
      replace (List.length st + 1) with (S (List.length st)) by lia. f_equal.
      destruct (Nat.lt_ge_cases id (List.length st)) as [L|L].
      * apply app_nth1. exact L.
      * rewrite (nth_overflow st) by exact L.
        rewrite app_nth2 by exact L. destruct (id - List.length st) as [|[|?]]; reflexivity.
    + (* Write *) destruct (nth_error st j) as [bj|] eqn:N; injection E as E1 E3; subst st1 x.
      * assert (Lj : j < List.length st) by (apply nth_error_Some; congruence).
        rewrite upd_length in *. cbn [news]. split; [exact IHl|].
        intro id. rewrite IHc. cbn [spec_content]. rewrite nth_upd by exact Lj.
        replace (j <? List.length st) with true by (symmetry; apply Nat.ltb_lt; exact Lj).
        rewrite andb_true_r. rewrite (Nat.eqb_sym j id).
        destruct (id =? j) eqn:Eid.
        -- apply Nat.eqb_eq in Eid. subst id. unfold bb_write.
           pose proof (nth_error_nth_d _ _ _ [] N) as Nj. unfold bytes, store in *. rewrite Nj.
           rewrite <- app_assoc. reflexivity.
        -- reflexivity.
      * cbn [news]. split; [exact IHl|]. intro id. rewrite IHc. cbn [spec_content].
        replace (j <? List.length st) with false
          by (symmetry; apply Nat.ltb_ge; apply nth_error_None; exact N).
        rewrite andb_false_r. reflexivity.
    + (* String *) assert (E1 : st1 = st) by (destruct (nth_error st j); injection E as E1 E3; congruence). subst st1.
      cbn [news spec_content]. split; [exact IHl|exact IHc].
Qed.

Lemma brun_app : forall pre post st,
  brun st (pre ++ post) =
  (fst (brun (fst (brun st pre)) post), snd (brun st pre) ++ snd (brun (fst (brun st pre)) post)).
Proof.
  induction pre as [|o pre IH]; intros post st.
  - cbn. destruct (brun st post); reflexivity.
  - cbn [app brun]. destruct (bstep st o) as [st1 x]. rewrite IH.
    destruct (brun st1 pre) as [st2 xs]. cbn [fst snd].
    destruct (brun st2 post) as [st3 ys]. reflexivity.
Qed.

Lemma brun_results_length : forall ops st, List.length (snd (brun st ops)) = List.length ops.
Proof.
  induction ops as [|o ops IH]; intro st; cbn [brun]; [reflexivity|].
  destruct (bstep st o) as [st1 x]. specialize (IH st1). destruct (brun st1 ops). cbn in *. congruence.
Qed.

(** buf.String at any point of any history returns exactly the strings written to that buffer
    before it, concatenated in order *)
Theorem buf_accumulates_in_order : forall pre id post,
  id < news pre ->
  nth_error (snd (brun [] (pre ++ BString id :: post))) (List.length pre)
  = Some (BStr (spec_content id 0 pre)).
Proof.
  intros pre id post H. rewrite brun_app. cbn [snd].
  rewrite nth_error_app2 by (rewrite brun_results_length; lia).
  rewrite brun_results_length, Nat.sub_diag.
  destruct (brun_store pre []) as [L C]. cbn [List.length] in L, C.
  set (st := fst (brun [] pre)) in *.
  cbn [brun bstep].
  assert (N : nth_error st id = Some (spec_content id 0 pre)).
  { specialize (C id). destruct id; cbn [nth app] in C.
    - rewrite <- C. destruct st; [cbn in L; lia|reflexivity].
    - rewrite <- C. apply nth_error_nth'. lia. }
  rewrite N. destruct (brun st post). reflexivity.
Qed.
