(** C12/C13 — per function: frame (no existing array is modified), validity of the result and
    refinement of the List specification, with the exact panic domain. *)
From Coq Require Import List Arith Lia Bool ZArith Permutation Sorted.
From FoVerif Require Import Pkg.SliceHeap Pkg.SliceHeapBase.
Import ListNotations.

(** the outcome r in heap h' implements the list-level outcome spec *)
Definition refines (h' : heap) (r : result slice) (spec : result (list val)) : Prop :=
  match spec with
  | Ok l => exists res, r = Ok res /\ valid h' res /\ contents h' res = l
  | Panic p => r = Panic p
  end.

(** list-level meaning of a range loop whose body appends [emit st i e] and moves the state to
    [next st i e] *)
Fixpoint run_spec {St : Type} (emit : St -> nat -> val -> list val) (next : St -> nat -> val -> St)
    (st : St) (i : nat) (l : list val) : list val :=
  match l with
  | [] => []
  | e :: t => emit st i e ++ run_spec emit next (next st i e) (S i) t
  end.

Definition body_ok {St : Type} (body : nat -> val -> St -> heap -> slice -> St * heap * slice)
    (emit : St -> nat -> val -> list val) (next : St -> nat -> val -> St)
    (n : nat) (h0 : heap) (s : slice) : Prop :=
  forall i st h res st1 h1 res1,
  frame n h0 h -> n <= length h -> fresh n res -> valid h res -> i < slen s ->
  body i (nth i (contents h0 s) vdef) st h res = (st1, h1, res1) ->
  frame n h h1 /\ fresh n res1 /\ valid h1 res1 /\
  contents h1 res1 = contents h res ++ emit st i (nth i (contents h0 s) vdef) /\
  st1 = next st i (nth i (contents h0 s) vdef).

Definition sorted_by (key : val -> Z) (l : list val) : Prop :=
  Sorted (fun x y => (key x <= key y)%Z) l.

Section Proofs.
Variable grow : nat -> nat -> nat.
Hypothesis grow_ok : forall c n, n <= grow c n.
Variable sorter : (val -> Z) -> list val -> list val.
Hypothesis sorter_perm : forall key l, Permutation l (sorter key l).

(* ------------------------------------------------------------------ range loops *)
Section Range.
Context {St : Type}.
Variable body : nat -> val -> St -> heap -> slice -> St * heap * slice.
Variable emit : St -> nat -> val -> list val.
Variable next : St -> nat -> val -> St.
Variables (n : nat) (h0 : heap) (s : slice).
Hypothesis s_valid : valid h0 s.
Hypothesis s_old : old n s.
Hypothesis Hbody : body_ok body emit next n h0 s.

Lemma range_loop_spec : forall k i st h res st' h' res',
  i + k = slen s -> frame n h0 h -> n <= length h -> fresh n res -> valid h res ->
  range_loop body k i st h res s = (st', h', res') ->
  frame n h0 h' /\ n <= length h' /\ fresh n res' /\ valid h' res' /\
  contents h' res' = contents h res ++ run_spec emit next st i (skipn i (contents h0 s)).
Proof.
  induction k as [|k IH]; intros i st h res st' h' res' Hik Fr Lh Fs Vr E; cbn [range_loop] in E.
  - inversion E; subst. repeat (split; [assumption|]).
    rewrite skipn_all2 by (rewrite (contents_length _ _ s_valid); lia). cbn. rewrite app_nil_r. reflexivity.
  - assert (Hi : i < slen s) by lia.
    rewrite (get_old n h0 h s i s_valid s_old Fr Hi) in E.
    destruct (body i (nth i (contents h0 s) vdef) st h res) as [[st1 h1] res1] eqn:B.
    destruct (Hbody _ _ _ _ _ _ _ Fr Lh Fs Vr Hi B) as (F1 & Fs1 & V1 & C1 & N1).
    assert (L1 : n <= length h1) by (destruct F1; lia).
    destruct (IH (S i) st1 h1 res1 st' h' res' ltac:(lia) (frame_trans _ _ _ _ Fr F1) L1 Fs1 V1 E)
      as (F2 & L2 & Fs2 & V2 & C2).
    repeat (split; [assumption|]).
    rewrite C2, C1, <- app_assoc. f_equal.
    rewrite (skipn_nth_cons (contents h0 s) i vdef) by (rewrite (contents_length _ _ s_valid); lia).
    cbn [run_spec]. rewrite N1. reflexivity.
Qed.
End Range.

(** a body that appends one element *)
Lemma keep_append1 {St} n (st : St) h res x st1 h1 res1 :
  n <= length h -> fresh n res -> valid h res ->
  keep st (append1 grow h res x) = (st1, h1, res1) ->
  frame n h h1 /\ fresh n res1 /\ valid h1 res1 /\ contents h1 res1 = contents h res ++ [x] /\ st1 = st.
Proof.
  intros Ln F V E. unfold keep in E. destruct (append1 grow h res x) as [h2 r2] eqn:A. cbn in E.
  inversion E; subst. destruct (append1_spec grow grow_ok n h res x h1 res1 Ln V F A) as (a & b & c & d).
  auto.
Qed.

Lemma run_spec_map (f : val -> val) i l :
  run_spec (fun (_ : unit) _ e => [f e]) (fun st _ _ => st) tt i l = map f l.
Proof. revert i; induction l; intros i; cbn; [reflexivity|]. f_equal. apply IHl. Qed.
Lemma run_spec_mapi (f : Z -> val -> val) i l :
  run_spec (fun (_ : unit) i e => [f (Z.of_nat i) e]) (fun st _ _ => st) tt i l = mapi_from f i l.
Proof. revert i; induction l; intros i; cbn; [reflexivity|]. f_equal. apply IHl. Qed.
Lemma run_spec_filter (p : val -> bool) i l :
  run_spec (fun (_ : unit) _ e => if p e then [e] else []) (fun st _ _ => st) tt i l = filter p l.
Proof. revert i; induction l; intros i; cbn; [reflexivity|]. destruct (p a); cbn; f_equal; apply IHl. Qed.
Lemma run_spec_flat_map (g : val -> list val) i l :
  run_spec (fun (_ : unit) _ e => g e) (fun st _ _ => st) tt i l = flat_map g l.
Proof. revert i; induction l; intros i; cbn; [reflexivity|]. f_equal. apply IHl. Qed.
Lemma run_spec_dedup seen i l :
  run_spec (fun (set : list val) _ e => if existsb (val_eqb e) set then [] else [e])
           (fun set _ e => if existsb (val_eqb e) set then set else e :: set) seen i l = dedup seen l.
Proof. revert seen i; induction l; intros seen i; cbn; [reflexivity|].
  destruct (existsb (val_eqb a) seen); cbn; [|f_equal]; apply IHl. Qed.


(* ------------------------------------------------------------------ Map, Mapi, Filter *)
Ltac finish_range V R BO :=
  match type of R with
  | range_loop ?b (slen ?s) 0 ?st ?h nilslice ?s = (?u, ?h', ?res) =>
    let F := fresh "F" in let Vr := fresh "Vr" in let C := fresh "C" in
    destruct (range_loop_spec b _ _ (length h) h s V (valid_old _ _ V) BO
                (slen s) 0 st h nilslice u h' res eq_refl (frame_refl _ _) (le_n _) I (valid_nil h) R)
      as (F & _ & _ & Vr & C);
    split; [exact F|]; exists res; split; [reflexivity|]; split; [exact Vr|]; rewrite C; cbn [contents nilslice sarr app]
  end.

Theorem Map_spec f h s h' r : valid h s -> Map grow f h s = (h', r) ->
  heap_extends h h' /\ refines h' r (Ok (map f (contents h s))).
Proof.
  intros V E. unfold Map in E.
  destruct (range_loop _ (slen s) 0 tt h nilslice s) as [[u h1] res] eqn:R. inversion E; subst; clear E.
  assert (BO : body_ok (fun _ e (st : unit) h res => keep st (append1 grow h res (f e)))
                       (fun _ _ e => [f e]) (fun st _ _ => st) (length h) h s).
  { intros i st hh rr st1 hh1 rr1 Fr Ln Fs Vr Hi B. exact (keep_append1 _ _ _ _ _ _ _ _ Ln Fs Vr B). }
  finish_range V R BO. apply run_spec_map.
Qed.

Theorem Mapi_spec f h s h' r : valid h s -> Mapi grow f h s = (h', r) ->
  heap_extends h h' /\ refines h' r (Ok (mapi_from f 0 (contents h s))).
Proof.
  intros V E. unfold Mapi in E.
  destruct (range_loop _ (slen s) 0 tt h nilslice s) as [[u h1] res] eqn:R. inversion E; subst; clear E.
  assert (BO : body_ok (fun i e (st : unit) h res => keep st (append1 grow h res (f (Z.of_nat i) e)))
                       (fun _ i e => [f (Z.of_nat i) e]) (fun st _ _ => st) (length h) h s).
  { intros i st hh rr st1 hh1 rr1 Fr Ln Fs Vr Hi B. exact (keep_append1 _ _ _ _ _ _ _ _ Ln Fs Vr B). }
  finish_range V R BO. apply run_spec_mapi.
Qed.

Theorem Filter_spec p h s h' r : valid h s -> Filter grow p h s = (h', r) ->
  heap_extends h h' /\ refines h' r (Ok (filter p (contents h s))).
Proof.
  intros V E. unfold Filter in E.
  destruct (range_loop _ (slen s) 0 tt h nilslice s) as [[u h1] res] eqn:R. inversion E; subst; clear E.
  assert (BO : body_ok (fun _ e (st : unit) h res => if p e then keep st (append1 grow h res e) else (st, h, res))
                       (fun _ _ e => if p e then [e] else []) (fun st _ _ => st) (length h) h s).
  { intros i st hh rr st1 hh1 rr1 Fr Ln Fs Vr Hi B. cbv beta in *.
    destruct (p (nth i (contents h s) vdef)).
    - exact (keep_append1 _ _ _ _ _ _ _ _ Ln Fs Vr B).
    - inversion B; subst. rewrite app_nil_r. repeat split; auto. }
  finish_range V R BO. apply run_spec_filter.
Qed.

(* ------------------------------------------------------------------ Zip *)
Lemma run_spec_zip (l2 : list val) i l : i + length l <= length l2 ->
  run_spec (fun (_ : unit) i e => [VP e (nth i l2 vdef)]) (fun st _ _ => st) tt i l
  = map (fun ab => VP (fst ab) (snd ab)) (combine l (skipn i l2)).
Proof.
  revert i; induction l as [|a l IH]; intros i H; cbn in *; [reflexivity|].
  rewrite (skipn_nth_cons l2 i vdef) by lia. cbn. f_equal. apply IH. lia.
Qed.

Theorem Zip_spec h s1 s2 h' r : valid h s1 -> valid h s2 -> Zip grow h s1 s2 = (h', r) ->
  heap_extends h h' /\ refines h' r (spec_zip (contents h s1) (contents h s2)).
Proof.
  intros V V2 E. unfold Zip in E. unfold spec_zip. rewrite !contents_length by assumption.
  destruct (slen s1 =? slen s2) eqn:L; cbn [negb] in *.
  2:{ inversion E; subst. split; [apply heap_extends_refl|reflexivity]. }
  apply Nat.eqb_eq in L.
  destruct (range_loop _ (slen s1) 0 tt h nilslice s1) as [[u h1] res] eqn:R. inversion E; subst; clear E.
  assert (BO : body_ok (fun i e (st : unit) h res => keep st (append1 grow h res (VP e (get h s2 i))))
                       (fun _ i e => [VP e (nth i (contents h s2) vdef)]) (fun st _ _ => st) (length h) h s1).
  { intros i st hh rr st1 hh1 rr1 Fr Ln Fs Vr Hi B. cbv beta in B.
    rewrite (get_old (length h) h hh s2 i V2 (valid_old _ _ V2) Fr) in B by lia.
    exact (keep_append1 _ _ _ _ _ _ _ _ Ln Fs Vr B). }
  finish_range V R BO. apply run_spec_zip. rewrite !contents_length by assumption. lia.
Qed.

(* ------------------------------------------------------------------ Collect *)
(** what is assumed of a slice-returning callback: it modifies nothing that exists and returns a
    valid slice whose contents are a function [fs] of the element *)
Definition cb_ok (n : nat) (h0 : heap) (f : callback) (fs : val -> list val) : Prop :=
  forall h e h1 one, frame n h0 h -> n <= length h -> f h e = (h1, one) ->
    heap_extends h h1 /\ valid h1 one /\ contents h1 one = fs e.

Theorem Collect_spec f fs h s h' r : valid h s -> cb_ok (length h) h f fs -> Collect grow f h s = (h', r) ->
  heap_extends h h' /\ refines h' r (Ok (flat_map fs (contents h s))).
Proof.
  intros V CB E. unfold Collect in E.
  destruct (range_loop _ (slen s) 0 tt h nilslice s) as [[u h1] res] eqn:R. inversion E; subst; clear E.
  assert (BO : body_ok (fun _ e (st : unit) h res =>
                          let '(h1, one) := f h e in keep st (appendN grow h1 res (contents h1 one)))
                       (fun _ _ e => fs e) (fun st _ _ => st) (length h) h s).
  { intros i st hh rr st1 hh1 rr1 Fr Ln Fs Vr Hi B. cbv beta in B.
    destruct (f hh (nth i (contents h s) vdef)) as [h2 one] eqn:Fe.
    destruct (CB _ _ _ _ Fr Ln Fe) as (X & Vo & Co).
    unfold keep in B. destruct (appendN grow h2 rr (contents h2 one)) as [h3 r3] eqn:A. cbn in B.
    inversion B; subst; clear B.
    assert (L2 : length h <= length h2) by (destruct X; lia).
    destruct (appendN_spec grow grow_ok (length h) h2 rr _ hh1 rr1 L2 (extends_valid _ _ _ X Vr) (or_introl Fs) A)
      as (F3 & V3 & C3 & Fr3 & _).
    split; [eapply frame_trans; [eapply frame_weaken; [|exact X]; lia|exact F3]|].
    split; [auto|]. split; [exact V3|]. split; [|reflexivity].
    rewrite C3, Co, (extends_contents _ _ _ X Vr). reflexivity. }
  finish_range V R BO. apply run_spec_flat_map.
Qed.

(* ------------------------------------------------------------------ Distinct *)
Theorem Distinct_spec h s h' r : valid h s -> Distinct grow h s = (h', r) ->
  heap_extends h h' /\ refines h' r (Ok (dedup [] (contents h s))).
Proof.
  intros V E. unfold Distinct in E.
  destruct (literal h []) as [h0 res0] eqn:Li.
  destruct (literal_spec _ _ _ _ Li) as (X0 & Fr0 & V0 & C0 & L0).
  destruct (range_loop _ (slen s) 0 [] h0 res0 s) as [[u h1] res] eqn:R. inversion E; subst; clear E.
  pose proof (extends_valid _ _ _ X0 V) as Vs. pose proof (extends_contents _ _ _ X0 V) as Cs.
  assert (BO : body_ok (fun _ e (set : list val) h res =>
                          if existsb (val_eqb e) set then (set, h, res) else keep (e :: set) (append1 grow h res e))
                       (fun set _ e => if existsb (val_eqb e) set then [] else [e])
                       (fun set _ e => if existsb (val_eqb e) set then set else e :: set) (length h) h0 s).
  { intros i st hh rr st1 hh1 rr1 Fr Ln Fs Vr Hi B. cbv beta in *.
    destruct (existsb (val_eqb (nth i (contents h0 s) vdef)) st).
    - inversion B; subst. rewrite app_nil_r. repeat split; auto.
    - exact (keep_append1 _ _ _ _ _ _ _ _ Ln Fs Vr B). }
  destruct (range_loop_spec _ _ _ (length h) h0 s Vs (valid_old _ _ V) BO
              (slen s) 0 [] h0 res0 u h' res eq_refl (frame_refl _ _) ltac:(lia) Fr0 V0 R)
    as (F & _ & _ & Vr & C).
  split; [eapply frame_trans; [exact X0|exact F]|]. exists res. split; [reflexivity|]. split; [exact Vr|].
  rewrite C, C0, Cs. cbn. apply run_spec_dedup.
Qed.

(* ------------------------------------------------------------------ Take, Skip *)
Lemma copy_loop_spec n h0 s : valid h0 s -> old n s ->
  forall k i h res h' r,
  i <= slen s -> frame n h0 h -> n <= length h -> fresh n res -> valid h res ->
  copy_loop grow k i h res s = (h', r) ->
  frame n h0 h' /\
  (if i + k <=? slen s
   then exists res', r = Ok res' /\ valid h' res' /\
        contents h' res' = contents h res ++ firstn k (skipn i (contents h0 s))
   else r = Panic PIndex).
Proof.
  intros V O. induction k as [|k IH]; intros i h res h' r Hi Fr Ln Fs Vr E; cbn [copy_loop] in E.
  - inversion E; subst. split; [exact Fr|].
    replace (i + 0 <=? slen s) with true by (symmetry; apply Nat.leb_le; lia).
    exists res. rewrite app_nil_r. auto.
  - destruct (i <? slen s) eqn:C.
    + apply Nat.ltb_lt in C. rewrite (get_old n h0 h s i V O Fr C) in E.
      destruct (append1 grow h res (nth i (contents h0 s) vdef)) as [h1 res1] eqn:A.
      destruct (append1_spec grow grow_ok n h res _ h1 res1 Ln Vr Fs A) as (F1 & V1 & C1 & Fs1).
      assert (L1 : n <= length h1) by (destruct F1; lia).
      destruct (IH (S i) h1 res1 h' r ltac:(lia) (frame_trans _ _ _ _ Fr F1) L1 Fs1 V1 E) as (F2 & R2).
      split; [exact F2|]. replace (i + S k) with (S i + k) by lia.
      destruct (S i + k <=? slen s); [|exact R2].
      destruct R2 as (res' & -> & V' & C'). exists res'. split; [reflexivity|]. split; [exact V'|].
      rewrite C', C1, <- app_assoc. f_equal.
      rewrite (skipn_nth_cons (contents h0 s) i vdef) by (rewrite (contents_length _ _ V); lia).
      reflexivity.
    + apply Nat.ltb_ge in C. inversion E; subst. split; [exact Fr|].
      replace (i + S k <=? slen s) with false by (symmetry; apply Nat.leb_gt; lia). reflexivity.
Qed.

Theorem Take_spec h num s h' r : valid h s -> Take grow h num s = (h', r) ->
  heap_extends h h' /\ refines h' r (spec_take num (contents h s)).
Proof.
  intros V E. unfold Take in E.
  destruct (copy_loop_spec (length h) h s V (valid_old _ _ V) _ 0 h nilslice h' r ltac:(lia)
              (frame_refl _ _) (le_n _) I (valid_nil h) E) as (F & R).
  split; [exact F|]. unfold spec_take. rewrite (contents_length _ _ V). cbn [plus] in R.
  destruct (num <=? Z.of_nat (slen s))%Z eqn:C.
  - replace (Z.to_nat num <=? slen s) with true in R by (symmetry; apply Nat.leb_le; lia).
    exact R.
  - replace (Z.to_nat num <=? slen s) with false in R by (symmetry; apply Nat.leb_gt; lia).
    exact R.
Qed.

Theorem Skip_spec h count s h' r : valid h s -> Skip grow h count s = (h', r) ->
  heap_extends h h' /\ refines h' r (spec_skip count (contents h s)).
Proof.
  intros V E. unfold Skip in E. unfold spec_skip. rewrite (contents_length _ _ V).
  destruct (Z.of_nat (slen s) <=? count)%Z eqn:C1.
  { inversion E; subst. split; [apply heap_extends_refl|]. exists nilslice. auto using valid_nil. }
  destruct (count <? 0)%Z eqn:C2.
  { inversion E; subst. split; [apply heap_extends_refl|reflexivity]. }
  apply Z.leb_gt in C1. apply Z.ltb_ge in C2.
  destruct (copy_loop_spec (length h) h s V (valid_old _ _ V) (slen s - Z.to_nat count) (Z.to_nat count)
              h nilslice h' r ltac:(lia)
              (frame_refl _ _) (le_n _) I (valid_nil h) E) as (F & R).
  split; [exact F|].
  replace (Z.to_nat count + (slen s - Z.to_nat count) <=? slen s) with true in R
    by (symmetry; apply Nat.leb_le; lia).
  destruct R as (res & -> & Vr & C). exists res. split; [reflexivity|]. split; [exact Vr|].
  rewrite C. cbn. apply firstn_all2. rewrite skipn_length, (contents_length _ _ V). lia.
Qed.

(* ------------------------------------------------------------------ New, Tail, PopLast *)
Theorem New_spec h h' r : New h = (h', r) -> heap_extends h h' /\ refines h' r (Ok []).
Proof.
  unfold New. destruct (literal h []) as [h1 s] eqn:L. intros E. inversion E; subst.
  destruct (literal_spec _ _ _ _ L) as (X & _ & V & C & _). split; [exact X|]. exists s. auto.
Qed.

Theorem Tail_spec h s h' r : valid h s -> Tail h s = (h', r) ->
  h' = h /\ refines h' r (spec_tail (contents h s)).
Proof.
  intros V E. unfold Tail in E. pose proof (contents_length _ _ V) as CL.
  destruct (slen s =? 0) eqn:L.
  - apply Nat.eqb_eq in L. inversion E; subst. split; [reflexivity|].
    destruct (contents h' s); [reflexivity|cbn in CL; lia].
  - apply Nat.eqb_neq in L. inversion E; subst. split; [reflexivity|].
    unfold valid in V. unfold contents in *. destruct (sarr s) as [a|] eqn:Sa; [|lia].
    destruct V as (La & Lc & Ll).
    assert (X : skipn (soff s) (getarr h' a) = nth (soff s) (getarr h' a) vdef :: skipn (S (soff s)) (getarr h' a))
      by (apply skipn_nth_cons; lia).
    rewrite X. destruct (slen s) as [|m] eqn:Sl; [lia|]. cbn [firstn spec_tail].
    eexists. split; [reflexivity|]. unfold valid, contents; cbn [sarr soff slen scap].
    replace (S m - 1) with m by lia. split; [lia|reflexivity].
Qed.

Lemma removelast_firstn_len {A} (l : list A) : removelast l = firstn (length l - 1) l.
Proof. induction l as [|x l IH]; [reflexivity|]. destruct l as [|y l]; [reflexivity|].
  cbn [removelast length] in *. rewrite IH. cbn. rewrite Nat.sub_0_r. reflexivity. Qed.

Theorem PopLast_spec h s h' r : valid h s -> PopLast h s = (h', r) ->
  h' = h /\ refines h' r (spec_poplast (contents h s)).
Proof.
  intros V E. unfold PopLast in E. pose proof (contents_length _ _ V) as CL.
  destruct (slen s =? 0) eqn:L.
  - apply Nat.eqb_eq in L. inversion E; subst. split; [reflexivity|].
    destruct (contents h' s); [reflexivity|cbn in CL; lia].
  - apply Nat.eqb_neq in L. inversion E; subst. split; [reflexivity|].
    unfold spec_poplast. destruct (contents h' s) eqn:Cs; [cbn in CL; lia|]. rewrite <- Cs in CL |- *. clear Cs.
    eexists. split; [reflexivity|]. rewrite removelast_firstn_len, CL.
    unfold valid in *. unfold contents; cbn. destruct (sarr s) as [a|] eqn:Sa; [|lia].
    split; [lia|]. rewrite firstn_firstn. f_equal. lia.
Qed.

(* ------------------------------------------------------------------ PushLast, PushHead, Append, Concat *)
(** one more append onto a fresh accumulator, reading an argument that lives below n *)
Lemma append_old n h0 h res s h1 res1 :
  valid h0 s -> old n s -> frame n h0 h -> n <= length h -> fresh n res -> valid h res ->
  appendN grow h res (contents h s) = (h1, res1) ->
  frame n h0 h1 /\ n <= length h1 /\ fresh n res1 /\ valid h1 res1 /\
  contents h1 res1 = contents h res ++ contents h0 s.
Proof.
  intros V O Fr Ln Fs Vr A.
  destruct (appendN_spec grow grow_ok n h res _ h1 res1 Ln Vr (or_introl Fs) A) as (F1 & V1 & C1 & Fs1 & _).
  split; [eapply frame_trans; eauto|]. split; [destruct F1; lia|]. split; [auto|]. split; [exact V1|].
  rewrite C1, (frame_contents _ _ _ _ Fr O). reflexivity.
Qed.

Theorem PushLast_spec h x s h' r : valid h s -> PushLast grow h x s = (h', r) ->
  heap_extends h h' /\ refines h' r (Ok (contents h s ++ [x])).
Proof.
  intros V E. unfold PushLast in E.
  destruct (make0 h (slen s + 1)) as [h1 res] eqn:M.
  destruct (make0_spec _ _ _ _ M) as (X1 & Fs1 & V1 & C1 & _).
  destruct (appendN grow h1 res (contents h1 s)) as [h2 res2] eqn:A.
  destruct (append_old (length h) h h1 res s h2 res2 V (valid_old _ _ V) X1 ltac:(destruct X1; lia) Fs1 V1 A)
    as (F2 & L2 & Fs2 & V2 & C2).
  destruct (append1 grow h2 res2 x) as [h3 res3] eqn:B. inversion E; subst; clear E.
  destruct (append1_spec grow grow_ok (length h) h2 res2 x h' res3 L2 V2 Fs2 B) as (F3 & V3 & C3 & _).
  split; [eapply frame_trans; eauto|]. exists res3. split; [reflexivity|]. split; [exact V3|].
  rewrite C3, C2, C1. reflexivity.
Qed.

Theorem PushHead_spec h x s h' r : valid h s -> PushHead grow h x s = (h', r) ->
  heap_extends h h' /\ refines h' r (Ok (x :: contents h s)).
Proof.
  intros V E. unfold PushHead in E.
  destruct (literal h [x]) as [h1 ret] eqn:M.
  destruct (literal_spec _ _ _ _ M) as (X1 & Fs1 & V1 & C1 & _).
  destruct (appendN grow h1 ret (contents h1 s)) as [h2 res2] eqn:A. inversion E; subst; clear E.
  destruct (append_old (length h) h h1 ret s h' res2 V (valid_old _ _ V) X1 ltac:(destruct X1; lia) Fs1 V1 A)
    as (F2 & L2 & Fs2 & V2 & C2).
  split; [exact F2|]. exists res2. split; [reflexivity|]. split; [exact V2|].
  rewrite C2, C1. reflexivity.
Qed.

Theorem Append_spec h s1 s2 h' r : valid h s1 -> valid h s2 -> Append grow h s1 s2 = (h', r) ->
  heap_extends h h' /\ refines h' r (Ok (contents h s1 ++ contents h s2)).
Proof.
  intros V1 V2 E. unfold Append in E.
  destruct (appendN grow h nilslice (contents h s1)) as [h1 res1] eqn:A1.
  destruct (append_old (length h) h h nilslice s1 h1 res1 V1 (valid_old _ _ V1) (frame_refl _ _) (le_n _) I (valid_nil h) A1)
    as (F1 & L1 & Fs1 & Vr1 & C1).
  destruct (appendN grow h1 res1 (contents h1 s2)) as [h2 res2] eqn:A2. inversion E; subst; clear E.
  destruct (append_old (length h) h h1 res1 s2 h' res2 V2 (valid_old _ _ V2) F1 L1 Fs1 Vr1 A2)
    as (F2 & L2 & Fs2 & Vr2 & C2).
  split; [exact F2|]. exists res2. split; [reflexivity|]. split; [exact Vr2|].
  rewrite C2, C1. reflexivity.
Qed.

Lemma concat_loop_spec n h0 : forall (ss : list slice) h res h' res',
  List.Forall (fun s => valid h0 s /\ old n s) ss ->
  frame n h0 h -> n <= length h -> fresh n res -> valid h res ->
  concat_loop grow ss h res = (h', res') ->
  frame n h0 h' /\ valid h' res' /\ contents h' res' = contents h res ++ concat (map (contents h0) ss).
Proof.
  induction ss as [|s ss IH]; intros h res h' res' FA Fr Ln Fs Vr E; cbn [concat_loop] in E.
  - inversion E; subst. cbn. rewrite app_nil_r. auto.
  - inversion FA as [|? ? [V O] FA']; subst.
    destruct (appendN grow h res (contents h s)) as [h1 res1] eqn:A.
    destruct (append_old n h0 h res s h1 res1 V O Fr Ln Fs Vr A) as (F1 & L1 & Fs1 & V1 & C1).
    destruct (IH h1 res1 h' res' FA' F1 L1 Fs1 V1 E) as (F2 & V2 & C2).
    split; [exact F2|]. split; [exact V2|]. rewrite C2, C1. cbn. rewrite app_assoc. reflexivity.
Qed.

Theorem Concat_spec h ss h' r : List.Forall (valid h) ss -> Concat grow h ss = (h', r) ->
  heap_extends h h' /\ refines h' r (Ok (concat (map (contents h) ss))).
Proof.
  intros FA E. unfold Concat in E. destruct (concat_loop grow ss h nilslice) as [h1 res] eqn:L.
  inversion E; subst; clear E.
  destruct (concat_loop_spec (length h) h ss h nilslice h' res) as (F & V & C); auto using frame_refl, valid_nil.
  { eapply Forall_impl; [|exact FA]. intros s V. split; [exact V|apply valid_old, V]. }
  { exact I. }
  split; [exact F|]. exists res. auto.
Qed.

(* ------------------------------------------------------------------ Sort, SortBy *)
Lemma sorter_length key l : length (sorter key l) = length l.
Proof. symmetry. apply Permutation_length, sorter_perm. Qed.
Lemma sorter_nil key : sorter key [] = [].
Proof. apply Permutation_nil, sorter_perm. Qed.

Lemma sort_inplace_spec n key h s : valid h s -> fresh n s ->
  frame n h (sort_inplace sorter key h s) /\ valid (sort_inplace sorter key h s) s /\
  contents (sort_inplace sorter key h s) s = sorter key (contents h s).
Proof.
  intros V F. unfold sort_inplace. pose proof (contents_length _ _ V) as CL.
  pose proof (sorter_length key (contents h s)) as SL.
  unfold valid, fresh in *. destruct (sarr s) as [a|] eqn:Sa.
  - destruct V as (La & Lc & Ll).
    split; [apply frame_upd; exact F|]. split.
    + rewrite upd_length, getarr_upd_same by exact La. rewrite splice_length by lia. lia.
    + unfold contents at 1. rewrite Sa, getarr_upd_same by exact La.
      rewrite <- CL, <- SL. apply splice_window0. lia.
  - split; [apply frame_refl|]. split; [exact V|].
    unfold contents. rewrite Sa. symmetry. apply sorter_nil.
Qed.

Theorem SortBy_spec proj h s h' r : valid h s -> SortBy grow sorter proj h s = (h', r) ->
  heap_extends h h' /\ refines h' r (Ok (sorter proj (contents h s))).
Proof.
  intros V E. unfold SortBy in E.
  set (s0 := mk (sarr s) (soff s) 0 0) in *.
  assert (V0 : valid h s0).
  { unfold valid in *. subst s0; cbn. destruct (sarr s); [lia|auto]. }
  assert (C0 : contents h s0 = []).
  { unfold contents. subst s0; cbn. destruct (sarr s); reflexivity. }
  destruct (appendN grow h s0 (contents h s)) as [h1 res] eqn:A.
  inversion E; subst; clear E.
  destruct (contents h s) as [|x xs] eqn:Cs.
  - destruct (appendN_spec grow grow_ok (length h) h s0 [] h1 res (le_n _) V0 (or_intror (or_introl eq_refl)) A)
      as (_ & _ & _ & _ & X). destruct (X eq_refl) as (-> & ->).
    assert (S0 : sort_inplace sorter proj h s0 = h).
    { unfold sort_inplace. destruct (sarr s0); [|reflexivity].
      rewrite C0, sorter_nil, splice_nil. apply upd_getarr. }
    rewrite S0. split; [apply heap_extends_refl|]. exists s0. split; [reflexivity|]. split; [exact V0|].
    rewrite C0, sorter_nil. reflexivity.
  - assert (G : scap s0 < slen s0 + length (x :: xs)) by (subst s0; cbn; lia).
    destruct (appendN_spec grow grow_ok (length h) h s0 _ h1 res (le_n _) V0 (or_intror (or_intror G)) A)
      as (F1 & V1 & C1 & Fs1 & _).
    destruct (sort_inplace_spec (length h) proj h1 res V1 (Fs1 (or_intror G))) as (F2 & V2 & C2).
    split; [eapply frame_trans; eauto|]. exists res. split; [reflexivity|]. split; [exact V2|].
    rewrite C2, C1, C0. reflexivity.
Qed.

Theorem Sort_spec h s h' r : valid h s -> Sort grow sorter h s = (h', r) ->
  heap_extends h h' /\ refines h' r (Ok (sorter vkey (contents h s))).
Proof. apply SortBy_spec. Qed.
End Proofs.

(* ------------------------------------------------------------------ observers (no heap result) *)
Section Observers.
Variables (h : heap) (s : slice).
Hypothesis V : valid h s.

Theorem Length_spec : Length h s = Z.of_nat (length (contents h s)).
Proof. unfold Length. rewrite (contents_length _ _ V). reflexivity. Qed.
Theorem Len_spec : Len h s = Z.of_nat (length (contents h s)).
Proof. exact Length_spec. Qed.
Theorem IsEmpty_spec : IsEmpty h s = match contents h s with [] => true | _ => false end.
Proof. unfold IsEmpty. pose proof (contents_length _ _ V) as CL.
  destruct (contents h s); cbn in CL; rewrite <- CL; reflexivity. Qed.
Theorem IsNotEmpty_spec : IsNotEmpty h s = match contents h s with [] => false | _ => true end.
Proof. unfold IsNotEmpty. pose proof (contents_length _ _ V) as CL.
  destruct (contents h s); cbn in CL; rewrite <- CL; reflexivity. Qed.
Theorem Item_spec index : Item h index s = spec_item index (contents h s).
Proof. unfold Item, spec_item. rewrite (contents_length _ _ V).
  destruct ((index <? 0)%Z || (Z.of_nat (slen s) <=? index)%Z) eqn:C; [reflexivity|].
  apply orb_false_iff in C. destruct C as (C1 & C2). apply Z.ltb_ge in C1. apply Z.leb_gt in C2.
  f_equal. apply get_contents; [exact V|lia]. Qed.
Theorem Head_spec : Head h s = spec_head (contents h s).
Proof. unfold Head, spec_head. pose proof (contents_length _ _ V) as CL.
  destruct (slen s =? 0) eqn:L.
  - apply Nat.eqb_eq in L. destruct (contents h s); [reflexivity|cbn in CL; lia].
  - apply Nat.eqb_neq in L. rewrite (get_contents _ _ 0 V) by lia.
    destruct (contents h s); [cbn in CL; lia|reflexivity]. Qed.
Lemma last_nth {A} (l : list A) d : last l d = nth (length l - 1) l d.
Proof. induction l as [|x l IH]; [reflexivity|]. destruct l as [|y l]; [reflexivity|].
  cbn [last length] in *. rewrite IH. cbn. rewrite Nat.sub_0_r. reflexivity. Qed.
Theorem Last_spec : Last h s = spec_last (contents h s).
Proof. unfold Last, spec_last. pose proof (contents_length _ _ V) as CL.
  destruct (slen s =? 0) eqn:L.
  - apply Nat.eqb_eq in L. destruct (contents h s); [reflexivity|cbn in CL; lia].
  - apply Nat.eqb_neq in L. rewrite (get_contents _ _ _ V) by lia.
    destruct (contents h s) eqn:Cs; [cbn in CL; lia|]. rewrite <- Cs in CL |- *. clear Cs.
    rewrite last_nth, CL. reflexivity. Qed.

Lemma iter_loop_spec : forall k i, i + k = slen s -> iter_loop k i h s = skipn i (contents h s).
Proof. induction k as [|k IH]; intros i H; cbn [iter_loop].
  - rewrite skipn_all2; [reflexivity|rewrite (contents_length _ _ V); lia].
  - rewrite (skipn_nth_cons (contents h s) i vdef) by (rewrite (contents_length _ _ V); lia).
    rewrite (get_contents _ _ _ V) by lia. f_equal. apply IH. lia. Qed.
Theorem Iter_spec : Iter h s = contents h s.
Proof. unfold Iter. rewrite iter_loop_spec by lia. reflexivity. Qed.

Lemma forall_loop_spec p : forall k i, i + k = slen s -> forall_loop p k i h s = forallb p (skipn i (contents h s)).
Proof. induction k as [|k IH]; intros i H; cbn [forall_loop].
  - rewrite skipn_all2; [reflexivity|rewrite (contents_length _ _ V); lia].
  - rewrite (skipn_nth_cons (contents h s) i vdef) by (rewrite (contents_length _ _ V); lia).
    rewrite (get_contents _ _ _ V) by lia. cbn [forallb].
    destruct (p (nth i (contents h s) vdef)); cbn; [apply IH; lia|reflexivity]. Qed.
Theorem Forall_spec p : Forall p h s = forallb p (contents h s).
Proof. unfold Forall. rewrite forall_loop_spec by lia. reflexivity. Qed.

Lemma forany_loop_spec p : forall k i, i + k = slen s -> forany_loop p k i h s = existsb p (skipn i (contents h s)).
Proof. induction k as [|k IH]; intros i H; cbn [forany_loop].
  - rewrite skipn_all2; [reflexivity|rewrite (contents_length _ _ V); lia].
  - rewrite (skipn_nth_cons (contents h s) i vdef) by (rewrite (contents_length _ _ V); lia).
    rewrite (get_contents _ _ _ V) by lia. cbn [existsb].
    destruct (p (nth i (contents h s) vdef)); cbn; [reflexivity|apply IH; lia]. Qed.
Theorem Forany_spec p : Forany p h s = existsb p (contents h s).
Proof. unfold Forany. rewrite forany_loop_spec by lia. reflexivity. Qed.

Lemma tryfind_loop_spec p : forall k i, i + k = slen s ->
  tryfind_loop p k i h s = spec_tryfind p (skipn i (contents h s)).
Proof. induction k as [|k IH]; intros i H; cbn [tryfind_loop].
  - rewrite skipn_all2; [reflexivity|rewrite (contents_length _ _ V); lia].
  - rewrite (skipn_nth_cons (contents h s) i vdef) by (rewrite (contents_length _ _ V); lia).
    rewrite (get_contents _ _ _ V) by lia. unfold spec_tryfind. cbn [find].
    destruct (p (nth i (contents h s) vdef)); [reflexivity|]. apply IH. lia. Qed.
Theorem TryFind_spec p : TryFind p h s = spec_tryfind p (contents h s).
Proof. unfold TryFind. rewrite tryfind_loop_spec by lia. reflexivity. Qed.

Lemma fold_loop_spec f : forall k i st, i + k = slen s ->
  fold_loop f k i st h s = fold_left f (skipn i (contents h s)) st.
Proof. induction k as [|k IH]; intros i st H; cbn [fold_loop].
  - rewrite skipn_all2; [reflexivity|rewrite (contents_length _ _ V); lia].
  - rewrite (skipn_nth_cons (contents h s) i vdef) by (rewrite (contents_length _ _ V); lia).
    rewrite (get_contents _ _ _ V) by lia. cbn [fold_left]. apply IH. lia. Qed.
Theorem Fold_spec f ini : Fold f ini h s = fold_left f (contents h s) ini.
Proof. unfold Fold. rewrite fold_loop_spec by lia. reflexivity. Qed.
End Observers.

(* ------------------------------------------------------------------ the specifications, unfolded *)
Lemma val_eqb_eq x y : val_eqb x y = true <-> x = y.
Proof.
  revert y; induction x as [z|a IHa b IHb]; intros [w|c d]; cbn; try (split; discriminate).
  - rewrite Z.eqb_eq. split; congruence.
  - rewrite andb_true_iff, IHa, IHb. split; [intros (-> & ->); reflexivity|intros E; inversion E; auto].
Qed.
Lemma existsb_val_eqb x l : existsb (val_eqb x) l = true <-> In x l.
Proof. rewrite existsb_exists. split.
  - intros (y & Hy & E). apply val_eqb_eq in E. subst. exact Hy.
  - intros H. exists x. split; [exact H|]. apply val_eqb_eq. reflexivity. Qed.

(** Distinct keeps exactly the first occurrences, in order *)
Lemma dedup_in seen l x : In x (dedup seen l) <-> In x l /\ ~ In x seen.
Proof.
  revert seen; induction l as [|y l IH]; intros seen; cbn; [tauto|].
  destruct (existsb (val_eqb y) seen) eqn:E.
  - apply existsb_val_eqb in E. rewrite IH. split; [tauto|]. intros ([->|H] & N); tauto.
  - assert (N : ~ In y seen) by (rewrite <- existsb_val_eqb, E; discriminate).
    cbn. rewrite IH. cbn. split.
    + intros [->|(H & M)]; tauto.
    + intros ([->|H] & M); [tauto|]. destruct (val_eqb y x) eqn:Q.
      * apply val_eqb_eq in Q. tauto.
      * right. split; [exact H|]. intros [->|X]; [|tauto].
        assert (val_eqb x x = true) by (apply val_eqb_eq; reflexivity). congruence.
Qed.
Lemma dedup_nodup seen l : NoDup (dedup seen l).
Proof.
  revert seen; induction l as [|y l IH]; intros seen; cbn; [constructor|].
  destruct (existsb (val_eqb y) seen); [apply IH|]. constructor; [|apply IH].
  rewrite dedup_in. cbn. tauto.
Qed.
Lemma dedup_seen_equiv s1 s2 l : (forall x, In x s1 <-> In x s2) -> dedup s1 l = dedup s2 l.
Proof.
  revert s1 s2; induction l as [|y l IH]; intros s1 s2 H; cbn; [reflexivity|].
  assert (E : existsb (val_eqb y) s1 = existsb (val_eqb y) s2).
  { destruct (existsb (val_eqb y) s1) eqn:A, (existsb (val_eqb y) s2) eqn:B; auto.
    - apply existsb_val_eqb, H, existsb_val_eqb in A. congruence.
    - apply existsb_val_eqb, H, existsb_val_eqb in B. congruence. }
  rewrite E. destruct (existsb (val_eqb y) s2); [apply IH, H|]. f_equal. apply IH.
  intros x; cbn. rewrite H. tauto.
Qed.
(** the element after a prefix is kept iff it does not occur in the prefix *)
Theorem dedup_snoc l x :
  dedup [] (l ++ [x]) = if existsb (val_eqb x) l then dedup [] l else dedup [] l ++ [x].
Proof.
  assert (G : forall seen, dedup seen (l ++ [x]) =
            if existsb (val_eqb x) (l ++ seen) then dedup seen l else dedup seen l ++ [x]).
  { induction l as [|y l IH]; intros seen; cbn [app dedup].
    - destruct (existsb (val_eqb x) seen); reflexivity.
    - destruct (existsb (val_eqb y) seen) eqn:E.
      + rewrite IH. cbn [existsb]. apply existsb_val_eqb in E.
        destruct (val_eqb x y) eqn:Q; cbn [orb]; [|reflexivity].
        apply val_eqb_eq in Q. subst.
        replace (existsb (val_eqb y) (l ++ seen)) with true; [reflexivity|].
        symmetry. apply existsb_val_eqb, in_or_app. tauto.
      + rewrite IH. cbn [existsb].
        assert (X : existsb (val_eqb x) (l ++ y :: seen) = (val_eqb x y || existsb (val_eqb x) (l ++ seen))).
        { rewrite !existsb_app. cbn. destruct (existsb (val_eqb x) l), (val_eqb x y); reflexivity. }
        rewrite X. destruct (val_eqb x y || existsb (val_eqb x) (l ++ seen)); reflexivity. }
  rewrite G, app_nil_r. reflexivity.
Qed.

Lemma mapi_from_nth f i l k d : k < length l -> nth k (mapi_from f i l) d = f (Z.of_nat (i + k)) (nth k l vdef).
Proof. revert i k; induction l as [|x l IH]; intros i k H; cbn in *; [lia|].
  destruct k; [rewrite Nat.add_0_r; reflexivity|]. rewrite IH by lia. f_equal. f_equal. lia. Qed.
Lemma mapi_from_length f i l : length (mapi_from f i l) = length l.
Proof. revert i; induction l; intros i; cbn; auto. Qed.

(* ------------------------------------------------------------------ insertion sort is a sorter *)
Lemma insert_by_perm key x l : Permutation (x :: l) (insert_by key x l).
Proof. induction l as [|y l IH]; cbn; [reflexivity|].
  destruct (key x <=? key y)%Z; [reflexivity|]. rewrite perm_swap. constructor. exact IH. Qed.
Lemma isort_by_perm key l : Permutation l (isort_by key l).
Proof. induction l as [|x l IH]; cbn; [constructor|].
  etransitivity; [apply perm_skip, IH|apply insert_by_perm]. Qed.
Lemma insert_by_sorted key x l : sorted_by key l -> sorted_by key (insert_by key x l).
Proof.
  unfold sorted_by. induction l as [|y l IH]; intros S; cbn; [repeat constructor|].
  destruct (key x <=? key y)%Z eqn:C.
  - constructor; [exact S|]. constructor. lia.
  - apply Z.leb_gt in C. inversion S as [|? ? S' H]; subst. constructor; [apply IH, S'|].
    destruct l as [|z l]; cbn; [constructor; lia|].
    destruct (key x <=? key z)%Z; constructor; [lia|]. inversion H; assumption.
Qed.
Lemma isort_by_sorted key l : sorted_by key (isort_by key l).
Proof. induction l as [|x l IH]; cbn; [constructor|]. apply insert_by_sorted, IH. Qed.

(** an ascending permutation of a list of ints is unique: Sort's result does not depend on
    which sorting permutation slices.SortFunc picks *)
Lemma sorted_by_head_min key x l : sorted_by key (x :: l) -> forall y, In y l -> (key x <= key y)%Z.
Proof.
  unfold sorted_by. intros S. apply Sorted_StronglySorted in S; [|intros a b c; lia].
  inversion S as [|? ? _ F]; subst. rewrite Forall_forall in F. exact F.
Qed.
Theorem sorted_perm_unique (l1 l2 : list Z) :
  Permutation (map VI l1) (map VI l2) -> sorted_by vkey (map VI l1) -> sorted_by vkey (map VI l2) -> l1 = l2.
Proof.
  revert l2; induction l1 as [|x l1 IH]; intros l2 P S1 S2.
  - apply Permutation_nil in P. destruct l2; [reflexivity|discriminate].
  - destruct l2 as [|y l2]; [apply Permutation_sym, Permutation_nil in P; discriminate|].
    cbn [map] in *.
    assert (x = y).
    { assert (A : In (VI x) (VI y :: map VI l2)) by (eapply Permutation_in; [exact P|left; reflexivity]).
      assert (B : In (VI y) (VI x :: map VI l1)) by (eapply Permutation_in; [symmetry; exact P|left; reflexivity]).
      destruct A as [A|A]; [congruence|]. destruct B as [B|B]; [congruence|].
      pose proof (sorted_by_head_min _ _ _ S1 _ B). pose proof (sorted_by_head_min _ _ _ S2 _ A). cbn in *. lia. }
    subst. f_equal. apply IH.
    + eapply Permutation_cons_inv. exact P.
    + inversion S1; assumption.
    + inversion S2; assumption.
Qed.

(* ------------------------------------------------------------------ the decidable sorted-permutation check *)
Lemma sorted_byb_ok key l : sorted_byb key l = true <-> sorted_by key l.
Proof.
  unfold sorted_by. induction l as [|x l IH]; cbn [sorted_byb]; [split; [constructor|reflexivity]|].
  destruct l as [|y l].
  - split; [repeat constructor|reflexivity].
  - rewrite andb_true_iff, IH, Z.leb_le. split.
    + intros (A & B). constructor; [exact B|constructor; exact A].
    + intros S. inversion S as [|? ? S' H]; subst. inversion H; subst. tauto.
Qed.
Lemma remove_one_perm x l l' : remove_one x l = Some l' -> Permutation l (x :: l').
Proof.
  revert l'; induction l as [|y l IH]; intros l' E; cbn in E; [discriminate|].
  destruct (val_eqb x y) eqn:Q.
  - apply val_eqb_eq in Q. inversion E; subst. reflexivity.
  - destruct (remove_one x l) as [t|]; [|discriminate]. inversion E; subst.
    rewrite (IH t eq_refl). apply perm_swap.
Qed.
Lemma remove_one_none x l : remove_one x l = None -> ~ In x l.
Proof.
  induction l as [|y l IH]; cbn; [tauto|]. destruct (val_eqb x y) eqn:Q; [discriminate|].
  destruct (remove_one x l); [discriminate|]. intros _ [->|H]; [|apply IH; auto].
  assert (val_eqb x x = true) by (apply val_eqb_eq; reflexivity). congruence.
Qed.
Lemma permb_ok l1 l2 : permb l1 l2 = true <-> Permutation l1 l2.
Proof.
  revert l2; induction l1 as [|x l1 IH]; intros l2; cbn [permb].
  - destruct l2; split; auto; try discriminate. intros P. apply Permutation_nil in P. discriminate.
  - destruct (remove_one x l2) as [l2'|] eqn:R.
    + rewrite IH. apply remove_one_perm in R. split.
      * intros P. rewrite R. constructor. exact P.
      * intros P. rewrite R in P. eapply Permutation_cons_inv. exact P.
    + split; [discriminate|]. intros P. apply remove_one_none in R. exfalso. apply R.
      eapply Permutation_in; [exact P|left; reflexivity].
Qed.
Theorem sorted_permb_ok key inp out :
  sorted_permb key inp out = true <-> sorted_by key out /\ Permutation inp out.
Proof. unfold sorted_permb. rewrite andb_true_iff, sorted_byb_ok, permb_ok. tauto. Qed.

(* ------------------------------------------------------------------ Sort/SortBy: ascending permutation *)
Section SortedSorter.
Variable grow : nat -> nat -> nat.
Hypothesis grow_ok : forall c n, n <= grow c n.
Variable sorter : (val -> Z) -> list val -> list val.
Hypothesis sorter_perm : forall key l, Permutation l (sorter key l).
Hypothesis sorter_sorted : forall key l, sorted_by key (sorter key l).

Theorem SortBy_sorted_perm proj h s h' r : valid h s -> SortBy grow sorter proj h s = (h', r) ->
  heap_extends h h' /\
  exists res, r = Ok res /\ valid h' res /\
              sorted_by proj (contents h' res) /\ Permutation (contents h s) (contents h' res).
Proof.
  intros V E. destruct (SortBy_spec grow grow_ok sorter sorter_perm proj h s h' r V E) as (X & res & -> & Vr & C).
  split; [exact X|]. exists res. rewrite C. auto.
Qed.
Theorem Sort_sorted_perm h s h' r : valid h s -> Sort grow sorter h s = (h', r) ->
  heap_extends h h' /\
  exists res, r = Ok res /\ valid h' res /\
              sorted_by vkey (contents h' res) /\ Permutation (contents h s) (contents h' res).
Proof. apply SortBy_sorted_perm. Qed.

(** on ints the result is THE ascending rearrangement, whatever permutation SortFunc picks *)
Theorem Sort_ints_unique h s h' r zs : valid h s -> contents h s = map VI zs ->
  Sort grow sorter h s = (h', r) ->
  exists res, r = Ok res /\ contents h' res = isort_by vkey (map VI zs).
Proof.
  intros V Cz E. destruct (Sort_sorted_perm h s h' r V E) as (_ & res & -> & _ & S & P).
  exists res. split; [reflexivity|]. rewrite Cz in P.
  destruct (Permutation_map_inv VI _ (Permutation_sym P)) as (zs1 & E1 & P1).
  pose proof (isort_by_perm vkey (map VI zs)) as P2.
  destruct (Permutation_map_inv VI _ (Permutation_sym P2)) as (zs2 & E2 & _).
  rewrite E1, E2. f_equal. apply sorted_perm_unique.
  - rewrite <- E1, <- E2. etransitivity; [symmetry; exact P|exact P2].
  - rewrite <- E1. exact S.
  - rewrite <- E2. apply isort_by_sorted.
Qed.
End SortedSorter.
