(** C14 — model of pkg/dict/dict.go.  Definitions only.

    type Dict[K comparable, V any] struct { Fdict map[K]V }
    A Dict value holds a Go map, i.e. a REFERENCE: copies of the struct share the map.  The
    model keeps a heap of maps; a Dict is an index into it.  A Go map is modelled as an
    association list with unique keys (insertion replaces in place or appends); the position in
    that list is not observable: [range] enumerates in an ARBITRARY order, supplied here by the
    section variable [enum] (indexed by the position of the operation in the history, because Go
    randomises every [range] independently).  The theorems assume only that [enum i] permutes. *)
From Coq Require Import List Arith Bool.
From FoVerif Require Import Pkg.Buf.
Import ListNotations.

Section Dict.
  Variable K V : Type.
  Variable keqb : K -> K -> bool.          (* == on a comparable key type *)
  Variable vzero : V.                      (* the zero value of V *)
  Variable enum : nat -> list (K * V) -> list (K * V).   (* order of one [range] *)

  Definition gomap := list (K * V).

  Fixpoint m_get (m : gomap) (k : K) : option V :=
    match m with
    | [] => None
    | (k', v) :: r => if keqb k k' then Some v else m_get r k
    end.

  Fixpoint m_set (m : gomap) (k : K) (v : V) : gomap :=
    match m with
    | [] => [(k, v)]
    | (k', v') :: r => if keqb k k' then (k, v) :: r else (k', v') :: m_set r k v
    end.

  Definition heap := list gomap.

  Inductive op :=
  | ONew
  | OAdd (d : nat) (k : K) (v : V)
  | OContainsKey (d : nat) (k : K)
  | OTryFind (d : nat) (k : K)
  | OItem (d : nat) (k : K)
  | OKVs (d : nat)
  | OKeys (d : nat)
  | OValues (d : nat)
  | OToDict (ss : list (K * V)).

  Inductive res :=
  | RRef (d : nat)
  | RUnit
  | RBool (b : bool)
  | RFind (v : V) (ok : bool)      (* frt.Tuple2[V, bool] *)
  | RVal (v : V)
  | RKVs (l : list (K * V))
  | RKeys (l : list K)
  | RVals (l : list V)
  | RInvalid.                      (* a Dict never returned by New/ToDict: not expressible *)

  (** the functions of dict.go on the heap *)
  Definition New (h : heap) : heap * nat := (h ++ [[]], List.length h).

  Definition Add (h : heap) (d : nat) (k : K) (v : V) : heap :=
    match nth_error h d with
    | Some m => upd h d (m_set m k v)
    | None => h
    end.

  Definition ContainsKey (m : gomap) (k : K) : bool :=
    match m_get m k with Some _ => true | None => false end.

  Definition TryFind (m : gomap) (k : K) : V * bool :=
    match m_get m k with Some e => (e, true) | None => (vzero, false) end.

  Definition Item (m : gomap) (k : K) : V :=
    match m_get m k with Some e => e | None => vzero end.

  Definition KVs (i : nat) (m : gomap) : list (K * V) := enum i m.
  Definition Keys (i : nat) (m : gomap) : list K := map fst (enum i m).
  Definition Values (i : nat) (m : gomap) : list V := map snd (enum i m).

  (** ToDict: dic := New(); for _, tp := range ss { k, v := Destr2(tp); Add(dic, k, v) } *)
  Definition ToDict (h : heap) (ss : list (K * V)) : heap * nat :=
    let '(h1, d) := New h in
    (fold_left (fun hh kv => Add hh d (fst kv) (snd kv)) ss h1, d).

  Definition with_map (h : heap) (d : nat) (f : gomap -> res) : res :=
    match nth_error h d with Some m => f m | None => RInvalid end.

  (** one operation of a history; [i] is its position *)
  Definition step (i : nat) (h : heap) (o : op) : heap * res :=
    match o with
    | ONew => let '(h1, d) := New h in (h1, RRef d)
    | OAdd d k v => (Add h d k v, with_map h d (fun _ => RUnit))
    | OContainsKey d k => (h, with_map h d (fun m => RBool (ContainsKey m k)))
    | OTryFind d k => (h, with_map h d (fun m => let '(v, ok) := TryFind m k in RFind v ok))
    | OItem d k => (h, with_map h d (fun m => RVal (Item m k)))
    | OKVs d => (h, with_map h d (fun m => RKVs (KVs i m)))
    | OKeys d => (h, with_map h d (fun m => RKeys (Keys i m)))
    | OValues d => (h, with_map h d (fun m => RVals (Values i m)))
    | OToDict ss => let '(h1, d) := ToDict h ss in (h1, RRef d)
    end.

  Fixpoint run (i : nat) (h : heap) (ops : list op) : heap * list res :=
    match ops with
    | [] => (h, [])
    | o :: r =>
        let '(h1, x) := step i h o in
        let '(h2, xs) := run (S i) h1 r in
        (h2, x :: xs)
    end.

  (** * Specification: every dictionary is a finite map, i.e. a function K -> option V *)

  Definition fmap := K -> option V.
  Definition sheap := list fmap.

  Definition f_empty : fmap := fun _ => None.
  Definition f_add (f : fmap) (k : K) (v : V) : fmap :=
    fun k' => if keqb k' k then Some v else f k'.

  (** the LAST value paired with [k] in [ss] *)
  Fixpoint last_val (ss : list (K * V)) (k : K) : option V :=
    match ss with
    | [] => None
    | (k', v) :: r =>
        match last_val r k with
        | Some v' => Some v'
        | None => if keqb k k' then Some v else None
        end
    end.

  Definition spec_step (sh : sheap) (o : op) : sheap :=
    match o with
    | ONew => sh ++ [f_empty]
    | OAdd d k v =>
        match nth_error sh d with
        | Some f => upd sh d (f_add f k v)
        | None => sh
        end
    | OToDict ss => sh ++ [last_val ss]
    | _ => sh
    end.

  (** what an operation may return when the dictionaries are the finite maps [sh] *)
  Definition res_ok (sh : sheap) (o : op) (r : res) : Prop :=
    match o with
    | ONew | OToDict _ => r = RRef (List.length sh)
    | OAdd d _ _ => match nth_error sh d with Some _ => r = RUnit | None => r = RInvalid end
    | OContainsKey d k =>
        match nth_error sh d with
        | Some f => r = RBool (match f k with Some _ => true | None => false end)
        | None => r = RInvalid
        end
    | OTryFind d k =>
        match nth_error sh d with
        | Some f => r = match f k with Some v => RFind v true | None => RFind vzero false end
        | None => r = RInvalid
        end
    | OItem d k =>
        match nth_error sh d with
        | Some f => r = RVal (match f k with Some v => v | None => vzero end)
        | None => r = RInvalid
        end
    | OKVs d =>
        match nth_error sh d with
        | Some f => exists l, r = RKVs l /\ NoDup (map fst l) /\
                              forall k v, In (k, v) l <-> f k = Some v
        | None => r = RInvalid
        end
    | OKeys d =>
        match nth_error sh d with
        | Some f => exists l, r = RKeys l /\ NoDup l /\ forall k, In k l <-> f k <> None
        | None => r = RInvalid
        end
    | OValues d =>
        match nth_error sh d with
        | Some f => exists kvs, r = RVals (map snd kvs) /\ NoDup (map fst kvs) /\
                                forall k v, In (k, v) kvs <-> f k = Some v
        | None => r = RInvalid
        end
    end.

  Fixpoint trace_ok (sh : sheap) (ops : list op) (rs : list res) : Prop :=
    match ops, rs with
    | [], [] => True
    | o :: ops', r :: rs' => res_ok sh o r /\ trace_ok (spec_step sh o) ops' rs'
    | _, _ => False
    end.
End Dict.

(** the instance run by the oracle: string keys, integer values, enumeration = stored order
    (or its reverse, chosen per request) *)
From Coq Require Import ZArith Ascii.
Fixpoint bytes_eqb (a b : bytes) : bool :=
  match a, b with
  | [], [] => true
  | x :: a', y :: b' => Ascii.eqb x y && bytes_eqb a' b'
  | _, _ => false
  end.
Definition enum_sz (rev_ : bool) (_ : nat) (l : list (bytes * Z)) : list (bytes * Z) :=
  if rev_ then rev l else l.
Definition run_sz (rev_ : bool) (ops : list (op bytes Z)) : list (res bytes Z) :=
  snd (run bytes Z bytes_eqb 0%Z (enum_sz rev_) 0 [] ops).
