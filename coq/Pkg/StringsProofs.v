(** C14 — proofs about the model of pkg/strings (Strings.v): every wrapper meets its
    specification, stated with [++] only, so that an argument swap in a wrapper falsifies it. *)
From Coq Require Import List Ascii Arith ZArith Bool Lia.
From FoVerif Require Import Pkg.Buf Pkg.Strings.
Import ListNotations.

(** * byte equality *)

Lemma beq_eq : forall a b, beq a b = true <-> a = b.
Proof.
  induction a as [|x a IH]; destruct b as [|y b]; cbn; split; intro H; try congruence; auto.
  - apply andb_true_iff in H. destruct H as [H1 H2].
    apply Ascii.eqb_eq in H1. apply IH in H2. congruence.
  - inversion H; subst. apply andb_true_iff. split.
    + apply Ascii.eqb_refl.
    + apply IH. reflexivity.
Qed.

Lemma beq_refl : forall a, beq a a = true.
Proof. intro a. apply beq_eq. reflexivity. Qed.

(** * HasPrefix / HasSuffix / TrimSuffix *)

Lemma go_has_prefix_spec : forall s p, go_has_prefix s p = true <-> exists t, s = p ++ t.
Proof.
  intros s p. unfold go_has_prefix. rewrite andb_true_iff, Nat.leb_le, beq_eq. split.
  - intros [_ H]. exists (skipn (List.length p) s).
    rewrite <- H at 1. symmetry. apply firstn_skipn.
  - intros [t ->]. split.
    + rewrite app_length. lia.
    + rewrite firstn_app, firstn_all, Nat.sub_diag. cbn. apply app_nil_r.
Qed.

Theorem has_prefix_spec : forall p s, HasPrefix p s = true <-> exists t, s = p ++ t.
Proof. intros p s. unfold HasPrefix. apply go_has_prefix_spec. Qed.

Lemma go_has_suffix_spec : forall s x, go_has_suffix s x = true <-> exists t, s = t ++ x.
Proof.
  intros s x. unfold go_has_suffix. rewrite andb_true_iff, Nat.leb_le, beq_eq. split.
  - intros [_ H]. exists (firstn (List.length s - List.length x) s).
    rewrite <- H at 2. symmetry. apply firstn_skipn.
  - intros [t ->]. split.
    + rewrite app_length. lia.
    + rewrite app_length. replace (List.length t + List.length x - List.length x) with (List.length t) by lia.
      rewrite skipn_app, skipn_all, Nat.sub_diag. reflexivity.
Qed.

Theorem has_suffix_spec : forall x s, HasSuffix x s = true <-> exists t, s = t ++ x.
Proof. intros x s. unfold HasSuffix. apply go_has_suffix_spec. Qed.

Theorem trim_suffix_removes : forall x t, TrimSuffix x (t ++ x) = t.
Proof.
  intros x t. unfold TrimSuffix, go_trim_suffix.
  replace (go_has_suffix (t ++ x) x) with true
    by (symmetry; apply go_has_suffix_spec; exists t; reflexivity).
  rewrite app_length. replace (List.length t + List.length x - List.length x) with (List.length t) by lia.
  rewrite firstn_app, firstn_all, Nat.sub_diag. cbn. apply app_nil_r.
Qed.

Theorem trim_suffix_keeps : forall x s, (forall t, s <> t ++ x) -> TrimSuffix x s = s.
Proof.
  intros x s H. unfold TrimSuffix, go_trim_suffix.
  destruct (go_has_suffix s x) eqn:E; [|reflexivity].
  apply go_has_suffix_spec in E. destruct E as [t E]. exfalso. apply (H t E).
Qed.

(** * Concat *)

Lemma concat_loop_spec : forall sep l first buf,
  concat_loop sep first l buf =
  buf ++ (if first then join sep l
          else match l with [] => [] | _ => sep ++ join sep l end).
Proof.
  induction l as [|x r IH]; intros first buf.
  - cbn. destruct first; rewrite app_nil_r; reflexivity.
  - cbn [concat_loop]. rewrite IH. unfold bb_write.
    destruct first; destruct r as [|y r']; cbn [join]; rewrite <- ?app_assoc, ?app_nil_r; reflexivity.
Qed.

Theorem concat_is_join : forall sep l, Concat sep l = join sep l.
Proof.
  intros. unfold Concat, bb_string, bb_new. rewrite concat_loop_spec. reflexivity.
Qed.

(** * Cut *)

Lemma go_has_prefix_nil : forall s, go_has_prefix s [] = true.
Proof. intro s. apply go_has_prefix_spec. exists s. reflexivity. Qed.

Lemma go_cut_some : forall sep s a b, go_cut s sep = Some (a, b) -> s = a ++ sep ++ b.
Proof.
  intros sep. induction s as [|c s IH]; intros a b H.
  - cbn [go_cut] in H. destruct (go_has_prefix [] sep) eqn:E; [|discriminate].
    inversion H; subst. apply go_has_prefix_spec in E. destruct E as [t E].
    cbn. rewrite E at 1. f_equal. rewrite E. rewrite skipn_app, skipn_all, Nat.sub_diag. reflexivity.
  - cbn [go_cut] in H. destruct (go_has_prefix (c :: s) sep) eqn:E.
    + inversion H; subst. apply go_has_prefix_spec in E. destruct E as [t E].
      cbn. rewrite E at 1. f_equal. rewrite E. rewrite skipn_app, skipn_all, Nat.sub_diag. reflexivity.
    + destruct (go_cut s sep) as [[a' b']|] eqn:E2; [|discriminate].
      inversion H; subst. cbn. f_equal. apply IH. reflexivity.
Qed.

Lemma go_cut_none_iff : forall sep s, go_cut s sep = None <-> ~ contains sep s.
Proof.
  intros sep s. split.
  - intros H [a [b E]]. subst s. revert H. induction a as [|c a IH]; intro H.
    + cbn [app] in H.
      assert (P : go_has_prefix (sep ++ b) sep = true) by (apply go_has_prefix_spec; eauto).
      destruct (sep ++ b); cbn [go_cut] in H; rewrite P in H; discriminate.
    + cbn [app go_cut] in H. destruct (go_has_prefix (c :: a ++ sep ++ b) sep); [discriminate|].
      destruct (go_cut (a ++ sep ++ b) sep) as [[? ?]|] eqn:E; [discriminate|].
      apply IH. reflexivity.
  - intro H. destruct (go_cut s sep) as [[a b]|] eqn:E; [|reflexivity].
    exfalso. apply H. exists a, b. apply go_cut_some. exact E.
Qed.

(** the text before the first occurrence does not contain the separator *)
Lemma go_cut_first : forall sep s a b, sep <> [] -> go_cut s sep = Some (a, b) -> ~ contains sep a.
Proof.
  intros sep s a b Hsep. revert a b. induction s as [|c s IH]; intros a b H.
  - cbn [go_cut] in H. destruct (go_has_prefix [] sep); [|discriminate].
    inversion H; subst. intros [x [y E]]. destruct x; destruct sep; cbn in E; congruence.
  - cbn [go_cut] in H. destruct (go_has_prefix (c :: s) sep) eqn:E.
    + inversion H; subst. intros [x [y E']]. destruct x; destruct sep; cbn in E'; congruence.
    + destruct (go_cut s sep) as [[a' b']|] eqn:E2; [|discriminate].
      inversion H; subst. intros [x [y E']].
      destruct x as [|c' x].
      * (* sep is a prefix of c :: a', hence of c :: s *)
        cbn [app] in E'.
        assert (P : go_has_prefix (c :: s) sep = true).
        { apply go_has_prefix_spec. apply go_cut_some in E2. exists (y ++ sep ++ b).
          rewrite E2. rewrite app_comm_cons. rewrite E'. rewrite <- app_assoc. reflexivity. }
        congruence.
      * cbn [app] in E'. inversion E'; subst.
        apply (IH _ _ eq_refl). exists x, y. reflexivity.
Qed.

Lemma go_cut_shorter : forall sep s a b, sep <> [] -> go_cut s sep = Some (a, b) ->
  List.length b < List.length s.
Proof.
  intros sep s a b Hsep H. apply go_cut_some in H. subst s.
  rewrite !app_length. destruct sep; [congruence|]. cbn. lia.
Qed.

(** * the loop of genSplit *)

Lemma split_loop_join : forall sep k s, join sep (go_split_loop k s sep) = s.
Proof.
  intros sep. induction k as [|k IH]; intro s; cbn [go_split_loop]; [reflexivity|].
  destruct (go_cut s sep) as [[a b]|] eqn:E; [|reflexivity].
  specialize (IH b). apply go_cut_some in E.
  destruct (go_split_loop k b sep) as [|y r] eqn:E2.
  - (* never empty *) destruct k; cbn in E2; [discriminate|]. destruct (go_cut b sep) as [[? ?]|]; discriminate.
  - cbn [join]. cbn [join] in IH. rewrite IH. symmetry. exact E.
Qed.

Lemma split_loop_nonempty : forall sep k s, go_split_loop k s sep <> [].
Proof.
  intros sep k s. destruct k; cbn; [discriminate|]. destruct (go_cut s sep) as [[? ?]|]; discriminate.
Qed.

Lemma split_loop_length : forall sep k s, List.length (go_split_loop k s sep) <= S k.
Proof.
  intros sep. induction k as [|k IH]; intro s; cbn [go_split_loop]; [cbn; lia|].
  destruct (go_cut s sep) as [[a b]|]; cbn [List.length]; [|lia].
  specialize (IH b). lia.
Qed.

(** every piece but the last is free of the separator; so is the last when the loop stopped
    because no separator was left (fewer pieces than allowed) *)
Lemma split_loop_pieces : forall sep, sep <> [] -> forall k s,
  Forall (fun p => ~ contains sep p) (removelast (go_split_loop k s sep)) /\
  (List.length (go_split_loop k s sep) < S k ->
   Forall (fun p => ~ contains sep p) (go_split_loop k s sep)).
Proof.
  intros sep Hsep. induction k as [|k IH]; intro s; cbn [go_split_loop].
  - split; [constructor|]. cbn. lia.
  - destruct (go_cut s sep) as [[a b]|] eqn:E.
    + destruct (IH b) as [IH1 IH2].
      assert (Ha : ~ contains sep a) by (eapply go_cut_first; eauto).
      split.
      * pose proof (split_loop_nonempty sep k b) as NE.
        destruct (go_split_loop k b sep) as [|y r] eqn:E2; [congruence|].
        change (removelast (a :: y :: r)) with (a :: removelast (y :: r)).
        constructor; assumption.
      * cbn [List.length]. intro L. constructor; [assumption|]. apply IH2. lia.
    + split; [constructor|]. intros _. constructor; [|constructor].
      apply go_cut_none_iff. exact E.
Qed.

(** with at least [length s] cuts allowed the loop always stops for lack of a separator *)
Lemma split_loop_saturated : forall sep, sep <> [] -> forall k s, List.length s <= k ->
  Forall (fun p => ~ contains sep p) (go_split_loop k s sep).
Proof.
  intros sep Hsep. induction k as [|k IH]; intros s L; cbn [go_split_loop].
  - destruct s; [|cbn in L; lia]. constructor; [|constructor].
    intros [x [y E]]. destruct x; destruct sep; cbn in E; congruence.
  - destruct (go_cut s sep) as [[a b]|] eqn:E.
    + constructor; [eapply go_cut_first; eauto|].
      apply IH. pose proof (go_cut_shorter _ _ _ _ Hsep E). lia.
    + constructor; [|constructor]. apply go_cut_none_iff. exact E.
Qed.

(** Count: bounded by the length, and exactly the number of cuts the loop makes *)
Lemma count_loop_le : forall sep, sep <> [] -> forall f s, go_count_loop f s sep <= List.length s.
Proof.
  intros sep Hsep. induction f as [|f IH]; intro s; cbn [go_count_loop]; [lia|].
  destruct (go_cut s sep) as [[a b]|] eqn:E; [|lia].
  pose proof (go_cut_shorter _ _ _ _ Hsep E). specialize (IH b). lia.
Qed.

Lemma split_loop_count : forall sep, sep <> [] -> forall f s, List.length s <= f ->
  Forall (fun p => ~ contains sep p) (go_split_loop (go_count_loop f s sep) s sep).
Proof.
  intros sep Hsep. induction f as [|f IH]; intros s L.
  - destruct s; [|cbn in L; lia]. cbn. constructor; [|constructor].
    intros [x [y E]]. destruct x; destruct sep; cbn in E; congruence.
  - cbn [go_count_loop]. destruct (go_cut s sep) as [[a b]|] eqn:E.
    + cbn [go_split_loop]. rewrite E. constructor; [eapply go_cut_first; eauto|].
      apply IH. pose proof (go_cut_shorter _ _ _ _ Hsep E). lia.
    + cbn [go_split_loop]. constructor; [|constructor]. apply go_cut_none_iff. exact E.
Qed.

(** * Split *)

Lemma split_unfold : forall sep s, sep <> [] ->
  Split sep s = go_split_loop (go_count s sep) s sep.
Proof.
  intros sep s Hsep. unfold Split, go_split, go_gen_split.
  change ((-1 =? 0)%Z) with false. change ((-1 <? 0)%Z) with true. cbv iota.
  destruct sep as [|c sep']; [congruence|].
  pose proof (count_loop_le (c :: sep') Hsep (List.length s) s) as L. fold (go_count s (c :: sep')) in L.
  rewrite Nat.min_l by lia. reflexivity.
Qed.

Theorem split_concat : forall sep s, sep <> [] -> Concat sep (Split sep s) = s.
Proof.
  intros sep s Hsep. rewrite concat_is_join, split_unfold by assumption. apply split_loop_join.
Qed.

Theorem split_pieces_sep_free : forall sep s, sep <> [] ->
  Forall (fun p => ~ contains sep p) (Split sep s).
Proof.
  intros sep s Hsep. rewrite split_unfold by assumption. unfold go_count.
  apply split_loop_count; [assumption|lia].
Qed.

Theorem split_nonempty : forall sep s, sep <> [] -> Split sep s <> [].
Proof. intros sep s Hsep. rewrite split_unfold by assumption. apply split_loop_nonempty. Qed.

(** * SplitN *)

Theorem splitn_zero : forall sep s, SplitN 0 sep s = [].
Proof. reflexivity. Qed.

Theorem splitn_negative : forall n sep s, (n < 0)%Z -> SplitN n sep s = Split sep s.
Proof.
  intros n sep s H. unfold SplitN, Split, go_split_n, go_split, go_gen_split.
  replace (n =? 0)%Z with false by (symmetry; apply Z.eqb_neq; lia).
  replace (n <? 0)%Z with true by (symmetry; apply Z.ltb_lt; lia).
  change ((-1 =? 0)%Z) with false. change ((-1 <? 0)%Z) with true.
  destruct sep; [|reflexivity].
  unfold go_explode. replace (n <? 0)%Z with true by (symmetry; apply Z.ltb_lt; lia). reflexivity.
Qed.

Theorem splitn_positive : forall n sep s, (0 < n)%Z -> sep <> [] ->
  let l := SplitN n sep s in
  Concat sep l = s /\
  1 <= List.length l <= Z.to_nat n /\
  Forall (fun p => ~ contains sep p) (removelast l) /\
  (List.length l < Z.to_nat n -> Forall (fun p => ~ contains sep p) l).
Proof.
  intros n sep s Hn Hsep l. subst l. unfold SplitN, go_split_n, go_gen_split.
  replace (n =? 0)%Z with false by (symmetry; apply Z.eqb_neq; lia).
  replace (n <? 0)%Z with false by (symmetry; apply Z.ltb_ge; lia).
  destruct sep as [|c sep']; [congruence|]. set (sep := c :: sep') in *.
  set (k := pred (Nat.min (Z.to_nat n) (S (List.length s)))).
  assert (Hk : S k = Nat.min (Z.to_nat n) (S (List.length s))) by (subst k; lia).
  pose proof (split_loop_length sep k s) as L1.
  pose proof (split_loop_nonempty sep k s) as NE.
  destruct (split_loop_pieces sep Hsep k s) as [P1 P2].
  rewrite concat_is_join. split; [apply split_loop_join|]. split; [|split].
  - destruct (go_split_loop k s sep); [congruence|]. cbn [List.length]. cbn [List.length] in L1. lia.
  - exact P1.
  - intro L. destruct (Nat.le_gt_cases (Z.to_nat n) (S (List.length s))) as [C|C].
    + apply P2. lia.
    + apply split_loop_saturated; [assumption|]. lia.
Qed.

(** * the remaining wrappers (their specification is their definition read with ++) *)

Theorem append_head_spec : forall h s, AppendHead h s = h ++ s.
Proof. reflexivity. Qed.
Theorem append_tail_spec : forall t s, AppendTail t s = s ++ t.
Proof. reflexivity. Qed.
Theorem enclose_with_spec : forall x y c, EncloseWith x y c = x ++ c ++ y.
Proof. reflexivity. Qed.
Theorem length_spec : forall s, Length s = List.length s.
Proof. reflexivity. Qed.
Theorem is_empty_spec : forall s, IsEmpty s = true <-> s = [].
Proof. destruct s; cbn; split; congruence. Qed.
Theorem is_not_empty_spec : forall s, IsNotEmpty s = true <-> s <> [].
Proof. destruct s; cbn; split; congruence. Qed.
