(** C14 — model of pkg/frt/frt.go (Pipe, conditionals over thunks, tuples, toS, Sprintf*/SInterP).
    Definitions only.

    Effects.  Go thunks ([func() T]) may perform effects; a computation is modelled as a
    function on a trace of events: [eff E A = list E -> list E * A] (the trace so far in, the
    extended trace and the value out).

    Values.  [gval] is a small universe of Go values of the kinds the formatting helpers see:
    signed / unsigned integers of every width, floats, strings, bools, a struct and a slice.
    A float carries its own renderings under %f and %v (supplied by the harness; floating-point
    formatting is not modelled).

    fmt.  [sprintf] is a modest hand model of fmt.Sprintf for the verbs %d %s %v %t %f %%:
    [None] = outside the modelled fragment (wrong verb for the operand kind, missing / extra
    operands, flags, width, a trailing %), where Go prints one of its %!verb(...) forms; the
    correspondence compares only where the model answers [Some].  fmt.Sprintf never panics.

    reflect.  [reflect_int] etc. model reflect.Value.Int/Uint/Float, which PANIC on a value of
    another kind; [toS] below is the kind switch of frt.go as it is now (unsigned kinds use
    Uint()); [toS_old] is the pre-repair variant kept for documentation. *)
From Coq Require Import List Ascii String ZArith Bool DecimalString.
From FoVerif Require Import Pkg.Buf.
Import ListNotations.

(** * Pipe and the thunk-taking conditionals *)

Definition eff (E A : Type) : Type := list E -> list E * A.

Definition Pipe {T U : Type} (elem : T) (f : T -> U) : U := f elem.
Definition PipeUnit {E T : Type} (elem : T) (f : T -> eff E unit) : eff E unit := f elem.

Definition IfElse {E T : Type} (cond : bool) (tbody fbody : eff E T) : eff E T :=
  fun tr => if cond then tbody tr else fbody tr.
Definition IfElseUnit {E : Type} (cond : bool) (tbody fbody : eff E unit) : eff E unit :=
  fun tr => if cond then tbody tr else fbody tr.
Definition IfOnly {E : Type} (cond : bool) (tbody : eff E unit) : eff E unit :=
  fun tr => if cond then tbody tr else (tr, tt).

(** a thunk that logs the events [evs] and returns [v] *)
Definition logging {E A : Type} (evs : list E) (v : A) : eff E A := fun tr => (tr ++ evs, v).

(** * Tuples *)

Record Tuple2 (T U : Type) := mkTuple2 { t2_E0 : T; t2_E1 : U }.
Record Tuple3 (T U W : Type) := mkTuple3 { t3_E0 : T; t3_E1 : U; t3_E2 : W }.
Arguments mkTuple2 {T U}. Arguments t2_E0 {T U}. Arguments t2_E1 {T U}.
Arguments mkTuple3 {T U W}. Arguments t3_E0 {T U W}. Arguments t3_E1 {T U W}. Arguments t3_E2 {T U W}.

Definition NewTuple2 {T U} (e0 : T) (e1 : U) : Tuple2 T U := mkTuple2 e0 e1.
Definition Fst {T U} (tup : Tuple2 T U) : T := t2_E0 tup.
Definition Snd {T U} (tup : Tuple2 T U) : U := t2_E1 tup.
Definition Destr2 {T U} (tup : Tuple2 T U) : T * U := (t2_E0 tup, t2_E1 tup).
Definition NewTuple3 {T U W} (e0 : T) (e1 : U) (e2 : W) : Tuple3 T U W := mkTuple3 e0 e1 e2.
Definition Destr3 {T U W} (tup : Tuple3 T U W) : T * U * W := (t3_E0 tup, t3_E1 tup, t3_E2 tup).

(** * Go values, reflect.Kind *)

Inductive ikind := KInt | KInt8 | KInt16 | KInt32 | KInt64.
Inductive ukind := KUint | KUint8 | KUint16 | KUint32 | KUint64 | KUintptr.

Inductive gval :=
| GInt (k : ikind) (z : Z)
| GUint (k : ukind) (z : Z)
| GFloat (is64 : bool) (as_f as_v : bytes)
| GStr (s : bytes)
| GBool (b : bool)
| GStruct (fields : list gval)        (* a struct type without String method *)
| GSlice (elems : list gval).

Inductive kind :=
| RInt (k : ikind) | RUint (k : ukind) | RFloat32 | RFloat64 | RString | RBool | RStruct | RSlice.

Definition kind_of (v : gval) : kind :=
  match v with
  | GInt k _ => RInt k
  | GUint k _ => RUint k
  | GFloat true _ _ => RFloat64
  | GFloat false _ _ => RFloat32
  | GStr _ => RString
  | GBool _ => RBool
  | GStruct _ => RStruct
  | GSlice _ => RSlice
  end.

Inductive outcome (A : Type) := Ok (a : A) | Panic (msg : bytes).
Arguments Ok {A}. Arguments Panic {A}.

Definition b (s : string) : bytes := list_ascii_of_string s.

(** reflect.Value.Int / Uint / Float panic on other kinds; String() does not *)
Definition reflect_int (v : gval) : outcome Z :=
  match v with GInt _ z => Ok z | _ => Panic (b "reflect: call of reflect.Value.Int on non-int Value") end.
Definition reflect_uint (v : gval) : outcome Z :=
  match v with GUint _ z => Ok z | _ => Panic (b "reflect: call of reflect.Value.Uint on non-uint Value") end.
Definition reflect_float (v : gval) : outcome bytes :=      (* the %f rendering of the float64 *)
  match v with GFloat _ f _ => Ok f | _ => Panic (b "reflect: call of reflect.Value.Float on non-float Value") end.
Definition reflect_string (v : gval) : bytes :=
  match v with GStr s => s | _ => b "<Value>" end.

(** * fmt *)

Definition dec (z : Z) : bytes := b (NilZero.string_of_int (Z.to_int z)).

Fixpoint fmt_v (v : gval) : bytes :=
  match v with
  | GInt _ z => dec z
  | GUint _ z => dec z
  | GFloat _ _ v' => v'
  | GStr s => s
  | GBool true => b "true"
  | GBool false => b "false"
  | GStruct l =>
      b "{" ++ (fix go (l : list gval) : bytes :=
                  match l with
                  | [] => []
                  | x :: r => match r with [] => fmt_v x | _ => fmt_v x ++ b " " ++ go r end
                  end) l ++ b "}"
  | GSlice l =>
      b "[" ++ (fix go (l : list gval) : bytes :=
                  match l with
                  | [] => []
                  | x :: r => match r with [] => fmt_v x | _ => fmt_v x ++ b " " ++ go r end
                  end) l ++ b "]"
  end.

Definition fmt_verb (verb : ascii) (v : gval) : option bytes :=
  if Ascii.eqb verb "v" then Some (fmt_v v)
  else if Ascii.eqb verb "d" then
         match v with GInt _ z => Some (dec z) | GUint _ z => Some (dec z) | _ => None end
  else if Ascii.eqb verb "s" then match v with GStr s => Some s | _ => None end
  else if Ascii.eqb verb "t" then match v with GBool _ => Some (fmt_v v) | _ => None end
  else if Ascii.eqb verb "f" then match v with GFloat _ f _ => Some f | _ => None end
  else None.

Fixpoint sprintf (f : bytes) (args : list gval) : option bytes :=
  match f with
  | [] => match args with [] => Some [] | _ => None end          (* %!(EXTRA ...) *)
  | c :: f1 =>
      if Ascii.eqb c "%" then
        match f1 with
        | [] => None                                              (* %!(NOVERB) *)
        | verb :: f2 =>
            if Ascii.eqb verb "%" then option_map (cons "%"%char) (sprintf f2 args)
            else match args with
                 | [] => None                                     (* %!v(MISSING) *)
                 | a :: args' =>
                     match fmt_verb verb a, sprintf f2 args' with
                     | Some x, Some y => Some (x ++ y)
                     | _, _ => None
                     end
                 end
        end
      else option_map (cons c) (sprintf f1 args)
  end.

Definition Sprintf1 (fmtstr : bytes) (arg : gval) : option bytes := sprintf fmtstr [arg].
Definition Sprintf2 (fmtstr : bytes) (arg0 arg1 : gval) : option bytes := sprintf fmtstr [arg0; arg1].

(** * toS and SInterP *)

Definition obind {A B} (x : outcome A) (f : A -> outcome B) : outcome B :=
  match x with Ok a => f a | Panic m => Panic m end.

(** frt.go as it is now *)
Definition toS (arg : gval) : outcome bytes :=
  match kind_of arg with
  | RInt _ => obind (reflect_int arg) (fun z => Ok (dec z))                (* Sprintf("%d", rval.Int()) *)
  | RUint _ => obind (reflect_uint arg) (fun z => Ok (dec z))              (* Sprintf("%d", rval.Uint()) *)
  | RFloat32 | RFloat64 => obind (reflect_float arg) (fun f => Ok f)       (* Sprintf("%f", rval.Float()) *)
  | RString => Ok (reflect_string arg)
  | _ => Ok (fmt_v arg)                                                    (* Sprintf("%v", arg) *)
  end.

(** before the repair: the unsigned kinds shared the case of the signed ones *)
Definition toS_old (arg : gval) : outcome bytes :=
  match kind_of arg with
  | RInt _ | RUint _ => obind (reflect_int arg) (fun z => Ok (dec z))
  | RFloat32 | RFloat64 => obind (reflect_float arg) (fun f => Ok f)
  | RString => Ok (reflect_string arg)
  | _ => Ok (fmt_v arg)
  end.

Fixpoint map_toS (tos : gval -> outcome bytes) (args : list gval) : outcome (list gval) :=
  match args with
  | [] => Ok []
  | a :: r => obind (tos a) (fun s => obind (map_toS tos r) (fun rs => Ok (GStr s :: rs)))
  end.

Definition SInterP_with (tos : gval -> outcome bytes) (fmt1 : bytes) (args : list gval)
  : outcome (option bytes) :=
  obind (map_toS tos args) (fun sargs => Ok (sprintf fmt1 sargs)).

Definition SInterP := SInterP_with toS.
Definition SInterP_old := SInterP_with toS_old.

(** a format made of plain text, %% and exactly the verbs %s / %v, one per operand *)
Fixpoint count_sv (f : bytes) : option nat :=
  match f with
  | [] => Some 0
  | c :: f1 =>
      if Ascii.eqb c "%" then
        match f1 with
        | [] => None
        | verb :: f2 =>
            if Ascii.eqb verb "%" then count_sv f2
            else if Ascii.eqb verb "s" || Ascii.eqb verb "v" then option_map S (count_sv f2)
            else None
        end
      else count_sv f1
  end.

(** decimal text -> Z (used by the oracle driver to read integers of any width) *)
Definition z_of_dec (s : bytes) : Z :=
  match NilZero.int_of_string (string_of_list_ascii s) with
  | Some i => Z.of_int i
  | None => 0%Z
  end.

(** the observable behaviour of the conditionals on logging thunks (run by the oracle) *)
Definition ifelse_demo (cond : bool) : list bool * bool :=
  IfElse cond (logging [true] true) (logging [false] false) [].
Definition ifelseunit_demo (cond : bool) : list bool :=
  fst (IfElseUnit cond (logging [true] tt) (logging [false] tt) []).
Definition ifonly_demo (cond : bool) : list bool :=
  fst (IfOnly cond (logging [true] tt) []).
