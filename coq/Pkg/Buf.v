(** C14 — model of pkg/buf/buf.go (a thin wrapper over *bytes.Buffer).
    Definitions only.  Byte strings are [list ascii] (Go strings are byte sequences).

    Go source modelled:
      type Buffer = *bytes.Buffer
      func New() Buffer            { return &bytes.Buffer{} }
      func Write(b Buffer, s string) { b.WriteString(s) }
      func String(b Buffer) string   { return b.String() }

    A [bytes.Buffer] value is its content; [buf.Buffer] is a *reference*, so several
    buffers live in a store and writes through one reference are visible through every
    copy of it.  Hand model of bytes.Buffer: WriteString appends, String returns the content. *)
From Coq Require Import List Ascii Arith Bool.
Import ListNotations.

Definition bytes := list ascii.

(** bytes.Buffer values (used directly by strings.Concat, which owns a local buffer) *)
Definition bb_new : bytes := [].
Definition bb_write (b s : bytes) : bytes := b ++ s.
Definition bb_string (b : bytes) : bytes := b.

(** the store of buffers reachable through buf.Buffer references *)
Definition store := list bytes.

Inductive bop :=
| BNew
| BWrite (id : nat) (s : bytes)
| BString (id : nat).

Inductive bres :=
| BRef (id : nat)
| BUnit
| BStr (s : bytes)
| BInvalid.           (* a reference that was never returned by New: not expressible in Go *)

Fixpoint upd {A} (l : list A) (i : nat) (x : A) : list A :=
  match l, i with
  | [], _ => []
  | _ :: r, O => x :: r
  | y :: r, S i' => y :: upd r i' x
  end.

Definition bstep (st : store) (o : bop) : store * bres :=
  match o with
  | BNew => (st ++ [bb_new], BRef (List.length st))
  | BWrite id s =>
      match nth_error st id with
      | Some b => (upd st id (bb_write b s), BUnit)
      | None => (st, BInvalid)
      end
  | BString id =>
      match nth_error st id with
      | Some b => (st, BStr (bb_string b))
      | None => (st, BInvalid)
      end
  end.

Fixpoint brun (st : store) (ops : list bop) : store * list bres :=
  match ops with
  | [] => (st, [])
  | o :: r =>
      let '(st1, x) := bstep st o in
      let '(st2, xs) := brun st1 r in
      (st2, x :: xs)
  end.

(** Specification: what buffer [id] must contain after a history, given that [created]
    buffers existed before it: the strings written to [id], in order. *)
Fixpoint spec_content (id created : nat) (ops : list bop) : bytes :=
  match ops with
  | [] => []
  | BNew :: r => spec_content id (S created) r
  | BWrite j s :: r =>
      (if (j =? id) && (j <? created) then s else []) ++ spec_content id created r
  | BString _ :: r => spec_content id created r
  end.

Fixpoint news (ops : list bop) : nat :=
  match ops with
  | [] => 0
  | BNew :: r => S (news r)
  | _ :: r => news r
  end.
