(** C12/C13 — basic facts about the heap model: frame, valid, append. *)
From Coq Require Import List Arith Lia Bool ZArith Permutation.
From FoVerif Require Import Pkg.SliceHeap.
Import ListNotations.

Definition valid (h : heap) (s : slice) : Prop :=
  match sarr s with
  | None => slen s = 0 /\ scap s = 0
  | Some a => a < length h /\ soff s + scap s <= length (getarr h a) /\ slen s <= scap s
  end.
(** arrays below n are untouched *)
Definition frame (n : nat) (h h' : heap) : Prop :=
  length h <= length h' /\ forall a, a < n -> getarr h' a = getarr h a.
(** no array that existed before is modified *)
Definition heap_extends (h h' : heap) : Prop := frame (length h) h h'.
Definition fresh (n : nat) (s : slice) : Prop :=
  match sarr s with None => True | Some a => n <= a end.
Definition old (n : nat) (s : slice) : Prop :=
  match sarr s with Some a => a < n | None => True end.

(* ---------- lists ---------- *)
Lemma upd_length {A} (l : list A) i x : length (upd l i x) = length l.
Proof. revert i; induction l; intros [|i]; cbn; auto. Qed.
Lemma nth_upd_same {A} (l : list A) i x d : i < length l -> nth i (upd l i x) d = x.
Proof. revert i; induction l; intros [|i] H; cbn in *; try lia; auto. apply IHl; lia. Qed.
Lemma nth_upd_other {A} (l : list A) i j x d : i <> j -> nth j (upd l i x) d = nth j l d.
Proof. revert i j; induction l; intros [|i] [|j] H; cbn; auto; try lia. Qed.
Lemma upd_nth_same {A} (l : list A) i d : upd l i (nth i l d) = l.
Proof. revert i; induction l; intros [|i]; cbn; auto. f_equal. apply IHl. Qed.
Lemma firstn_app_exact {A} (l1 l2 : list A) n : length l1 = n -> firstn n (l1 ++ l2) = l1.
Proof. intros <-. rewrite firstn_app, Nat.sub_diag, firstn_all. cbn. apply app_nil_r. Qed.
Lemma skipn_app_exact {A} (l1 l2 : list A) n : length l1 = n -> skipn n (l1 ++ l2) = l2.
Proof. intros <-. rewrite skipn_app, Nat.sub_diag, skipn_all. reflexivity. Qed.
Lemma nth_firstn_skipn {A} (l : list A) off len i d :
  i < len -> nth i (firstn len (skipn off l)) d = nth (off + i) l d.
Proof.
  revert off len i. induction l as [|y l IH]; intros off len i H.
  - rewrite skipn_nil, firstn_nil. destruct i, (off + _); reflexivity.
  - destruct off as [|off]; cbn [skipn plus].
    + destruct len as [|len]; [lia|]. destruct i as [|i]; cbn; auto. apply (IH 0 len i). lia.
    + cbn. apply IH. exact H.
Qed.
Lemma skipn_nth_cons {A} (l : list A) i d : i < length l -> skipn i l = nth i l d :: skipn (S i) l.
Proof. revert i; induction l as [|y l IH]; intros i H; cbn in H; [lia|].
  destruct i; cbn; auto. apply IH. lia. Qed.
Lemma firstn_S_nth {A} (l : list A) i d : i < length l -> firstn (S i) l = firstn i l ++ [nth i l d].
Proof. revert i; induction l as [|y l IH]; intros i H; cbn in H; [lia|].
  destruct i; cbn; auto. f_equal. apply IH. lia. Qed.

Lemma splice_length l i xs : i + length xs <= length l -> length (splice l i xs) = length l.
Proof. intros H. unfold splice. rewrite !app_length, firstn_length, skipn_length. lia. Qed.
Lemma splice_nil l i : splice l i [] = l.
Proof. unfold splice. cbn. rewrite Nat.add_0_r. apply firstn_skipn. Qed.
(** cells before the written range are unchanged; the range holds xs *)
Lemma splice_window l off len xs :
  off + len + length xs <= length l ->
  firstn (len + length xs) (skipn off (splice l (off + len) xs)) = firstn len (skipn off l) ++ xs.
Proof.
  intros H. unfold splice.
  assert (E : firstn (off + len) l = firstn off l ++ firstn len (skipn off l)).
  { rewrite <- (firstn_skipn off l) at 1. rewrite firstn_app, firstn_length, Nat.min_l by lia.
    rewrite firstn_firstn, Nat.min_r by lia. f_equal. f_equal. lia. }
  rewrite E, <- app_assoc. rewrite skipn_app_exact by (rewrite firstn_length; lia).
  rewrite app_assoc. apply firstn_app_exact.
  rewrite app_length, firstn_length, skipn_length. lia.
Qed.
Lemma splice_window0 l off xs :
  off + length xs <= length l -> firstn (length xs) (skipn off (splice l off xs)) = xs.
Proof.
  intros H. pose proof (splice_window l off 0 xs) as W. rewrite Nat.add_0_r in W.
  cbn in W. apply W. lia.
Qed.

(* ---------- heap ---------- *)
Lemma getarr_upd_same h a l : a < length h -> getarr (upd h a l) a = l.
Proof. intros H. unfold getarr. apply nth_upd_same. exact H. Qed.
Lemma getarr_upd_other h a b l : a <> b -> getarr (upd h a l) b = getarr h b.
Proof. intros H. unfold getarr. apply nth_upd_other. exact H. Qed.
Lemma getarr_alloc_new h a : getarr (alloc h a) (length h) = a.
Proof. unfold getarr, alloc. rewrite app_nth2, Nat.sub_diag by lia. reflexivity. Qed.
Lemma getarr_alloc_old h a b : b < length h -> getarr (alloc h a) b = getarr h b.
Proof. intros H. unfold getarr, alloc. rewrite app_nth1 by lia. reflexivity. Qed.
Lemma alloc_length h a : length (alloc h a) = S (length h).
Proof. unfold alloc. rewrite app_length. cbn. lia. Qed.
Lemma upd_getarr h a : upd h a (getarr h a) = h.
Proof. apply upd_nth_same. Qed.

Lemma frame_refl n h : frame n h h. Proof. split; auto. Qed.
Lemma frame_trans n h1 h2 h3 : frame n h1 h2 -> frame n h2 h3 -> frame n h1 h3.
Proof. intros (L1 & F1) (L2 & F2); split; [lia|]. intros a Ha. rewrite F2, F1 by exact Ha. reflexivity. Qed.
Lemma frame_weaken n m h h' : m <= n -> frame n h h' -> frame m h h'.
Proof. intros Hm (L & F). split; [exact L|]. intros a Ha. apply F. lia. Qed.
Lemma frame_alloc n h a : n <= length h -> frame n h (alloc h a).
Proof. intros H. split; [rewrite alloc_length; lia|]. intros b Hb. apply getarr_alloc_old. lia. Qed.
Lemma frame_upd n h a l : n <= a -> frame n h (upd h a l).
Proof. intros H. split; [rewrite upd_length; lia|]. intros b Hb. apply getarr_upd_other. lia. Qed.
Lemma heap_extends_refl h : heap_extends h h. Proof. apply frame_refl. Qed.
Lemma heap_extends_trans h1 h2 h3 : heap_extends h1 h2 -> heap_extends h2 h3 -> heap_extends h1 h3.
Proof. unfold heap_extends. intros F1 F2. eapply frame_trans; [exact F1|].
  eapply frame_weaken; [|exact F2]. destruct F1; lia. Qed.

Lemma valid_old h s : valid h s -> old (length h) s.
Proof. unfold valid, old. destruct (sarr s); tauto. Qed.
Lemma frame_contents n h h' s : frame n h h' -> old n s -> contents h' s = contents h s.
Proof. unfold frame, contents, old. intros (_ & F) Hs. destruct (sarr s); auto. rewrite F by exact Hs. reflexivity. Qed.
Lemma frame_valid n h h' s : frame n h h' -> old n s -> valid h s -> valid h' s.
Proof. unfold frame, valid, old. intros (L & F) Hs V. destruct (sarr s); auto. rewrite F by exact Hs. intuition lia. Qed.
Lemma frame_get n h h' s i : frame n h h' -> old n s -> get h' s i = get h s i.
Proof. unfold frame, get, old. intros (_ & F) Hs. destruct (sarr s); auto. rewrite F by exact Hs. reflexivity. Qed.
Lemma extends_contents h h' s : heap_extends h h' -> valid h s -> contents h' s = contents h s.
Proof. intros F V. eapply frame_contents; [exact F|]. apply valid_old, V. Qed.
Lemma extends_valid h h' s : heap_extends h h' -> valid h s -> valid h' s.
Proof. intros F V. eapply frame_valid; [exact F| |exact V]. apply valid_old, V. Qed.

Lemma contents_length h s : valid h s -> length (contents h s) = slen s.
Proof. unfold valid, contents. destruct (sarr s) as [a|].
  - intros (La & Lc & Ll). rewrite firstn_length, skipn_length. lia.
  - intros (-> & _). reflexivity. Qed.
Lemma get_contents h s i : valid h s -> i < slen s -> get h s i = nth i (contents h s) vdef.
Proof. unfold get, contents, valid. intros V Hi. destruct (sarr s) as [a|].
  - symmetry. apply nth_firstn_skipn. exact Hi.
  - destruct V; lia. Qed.
Lemma get_old n h0 h s i :
  valid h0 s -> old n s -> frame n h0 h -> i < slen s -> get h s i = nth i (contents h0 s) vdef.
Proof. intros V O F Hi. rewrite (frame_get n h0 h s i F O). apply get_contents; assumption. Qed.
Lemma valid_nil h : valid h nilslice. Proof. split; reflexivity. Qed.
Lemma contents_nil h : contents h nilslice = []. Proof. reflexivity. Qed.
Lemma fresh_nil n : fresh n nilslice. Proof. exact I. Qed.

(* ---------- literals / make ---------- *)
Lemma literal_spec h l h' s : literal h l = (h', s) ->
  heap_extends h h' /\ fresh (length h) s /\ valid h' s /\ contents h' s = l /\ length h' = S (length h).
Proof.
  unfold literal. intros E. inversion E; subst; clear E. split; [apply frame_alloc; lia|].
  split; [cbn; lia|]. split.
  - unfold valid; cbn. rewrite alloc_length, getarr_alloc_new. lia.
  - split; [|apply alloc_length]. unfold contents; cbn. rewrite getarr_alloc_new. apply firstn_all.
Qed.
Lemma make0_spec h c h' s : make0 h c = (h', s) ->
  heap_extends h h' /\ fresh (length h) s /\ valid h' s /\ contents h' s = [] /\ scap s = c /\ slen s = 0.
Proof.
  unfold make0. intros E. inversion E; subst; clear E. split; [apply frame_alloc; lia|].
  split; [cbn; lia|]. split.
  - unfold valid; cbn. rewrite alloc_length, getarr_alloc_new. unfold zeros. rewrite repeat_length. lia.
  - split; [|split]; reflexivity.
Qed.
Lemma make_filled_spec h l extra h' s : make_filled h l extra = (h', s) ->
  heap_extends h h' /\ fresh (length h) s /\ valid h' s /\ contents h' s = l.
Proof.
  unfold make_filled. intros E. inversion E; subst; clear E. split; [apply frame_alloc; lia|].
  split; [cbn; lia|]. split.
  - unfold valid; cbn. rewrite alloc_length, getarr_alloc_new, app_length. unfold zeros. rewrite repeat_length. lia.
  - unfold contents; cbn. rewrite getarr_alloc_new. apply firstn_app_exact. reflexivity.
Qed.

(* ---------- append ---------- *)
Section Grow.
Variable grow : nat -> nat -> nat.
Hypothesis grow_ok : forall c n, n <= grow c n.

(** append onto an accumulator that is nil or allocated at/after n — or appending nothing *)
Lemma appendN_spec n h s xs h' s' :
  n <= length h -> valid h s -> (fresh n s \/ xs = [] \/ scap s < slen s + length xs) ->
  appendN grow h s xs = (h', s') ->
  frame n h h' /\ valid h' s' /\ contents h' s' = contents h s ++ xs /\
  (fresh n s \/ scap s < slen s + length xs -> fresh n s') /\ (xs = [] -> h' = h /\ s' = s).
Proof.
  intros Ln V F E. unfold appendN in E.
  destruct (slen s + length xs <=? scap s) eqn:C.
  - apply Nat.leb_le in C. destruct (sarr s) as [a|] eqn:Sa.
    + inversion E; subst; clear E. unfold valid in V. rewrite Sa in V. destruct V as (La & Lc & Ll).
      assert (W : soff s + slen s + length xs <= length (getarr h a)) by lia.
      split; [|split; [|split; [|split]]].
      * destruct F as [F | [-> | F]]; [| |lia].
        -- apply frame_upd. unfold fresh in F. rewrite Sa in F. exact F.
        -- rewrite splice_nil, upd_getarr. apply frame_refl.
      * unfold valid; cbn. rewrite upd_length, getarr_upd_same by exact La.
        rewrite splice_length by lia. lia.
      * unfold contents; cbn. rewrite Sa, getarr_upd_same by exact La. apply splice_window. exact W.
      * unfold fresh; cbn. rewrite Sa. intros [X|X]; [exact X|lia].
      * intros ->. rewrite splice_nil, upd_getarr. split; [reflexivity|].
        destruct s; cbn in *. subst. f_equal. lia.
    + inversion E; subst; clear E. unfold valid in V. rewrite Sa in V. destruct V as (V1 & V2).
      assert (xs = []) as -> by (destruct xs; cbn in C; [reflexivity|lia]).
      split; [apply frame_refl|]. split; [unfold valid; rewrite Sa; auto|].
      split; [rewrite app_nil_r; reflexivity|]. split; auto. intros _. unfold fresh. rewrite Sa. exact I.
  - apply Nat.leb_gt in C. inversion E; subst; clear E.
    pose proof (contents_length h s V) as CL.
    pose proof (grow_ok (scap s) (slen s + length xs)) as G.
    split; [apply frame_alloc; exact Ln|]. split; [|split; [|split]].
    + unfold valid; cbn. rewrite alloc_length, getarr_alloc_new, !app_length, CL.
      unfold zeros. rewrite repeat_length. lia.
    + unfold contents at 1; cbn. rewrite getarr_alloc_new. rewrite app_assoc.
      apply firstn_app_exact. rewrite app_length, CL. reflexivity.
    + intros _. unfold fresh; cbn. exact Ln.
    + intros ->. cbn in C. unfold valid in V. destruct (sarr s); lia.
Qed.

Lemma append1_spec n h s x h' s' :
  n <= length h -> valid h s -> fresh n s -> append1 grow h s x = (h', s') ->
  frame n h h' /\ valid h' s' /\ contents h' s' = contents h s ++ [x] /\ fresh n s'.
Proof.
  intros Ln V F E. destruct (appendN_spec n h s [x] h' s' Ln V (or_introl F) E) as (A & B & C & D & _).
  split; [exact A|]. split; [exact B|]. split; [exact C|]. apply D. left. exact F.
Qed.
End Grow.
