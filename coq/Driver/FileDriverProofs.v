(** C16, driver half: exit 0 means every requested output is there and complete; a failure leaves
    the offender's output alone and the earlier outputs intact. *)
From Coq Require Import List Arith Bool String Ascii Lia.
From FoVerif Require Import Driver.FileDriver.
Import ListNotations.

Section DriverProofs.
  Variable state : Type.
  Variable translate : state -> content -> option (state * content).
  Variable is_fo : path -> bool.
  Variable dest : path -> path.

  Notation step := (step state translate is_fo dest).
  Notation step_old := (step_old state translate is_fo dest).
  Notation run := (transpile_files state translate is_fo dest).

  (* ---------------------------------------------------------------- write / step *)

  Lemma write_files : forall fs p c fs',
    write fs p c = Some fs' ->
    files fs' p = Some c /\ (forall q, q <> p -> files fs' q = files fs q) /\
    is_dir fs' = is_dir fs /\ unwritable fs' = unwritable fs.
  Proof.
    intros fs p c fs' H. unfold write in H.
    destruct (is_dir fs p || unwritable fs p); [discriminate|].
    inversion H; subst; cbn. split; [rewrite String.eqb_refl; reflexivity|].
    split; [|split; reflexivity].
    intros q Hq. destruct (String.eqb q p) eqn:E; [apply String.eqb_eq in E; contradiction|reflexivity].
  Qed.

  (** what one successful transpileOne does *)
  Lemma step_ok_spec : forall st fs f st' fs',
    step st fs f = inl (st', fs') ->
    exists src out, read fs f = Some src /\ translate st src = Some (st', out) /\
      ((is_fo f = true /\ write fs (dest f) out = Some fs') \/ (is_fo f = false /\ fs' = fs)).
  Proof.
    intros st fs f st' fs' H. unfold FileDriver.step in H.
    destruct (read fs f) as [src|]; [|discriminate].
    destruct (translate st src) as [[st1 out]|] eqn:Et; [|discriminate].
    exists src, out. split; [reflexivity|].
    destruct (is_fo f) eqn:Ef.
    - destruct (write fs (dest f) out) as [fs1|] eqn:Ew; [|discriminate].
      inversion H; subst. split; [exact Et|]. left. split; [reflexivity|first [exact Ew|reflexivity]].
    - inversion H; subst. split; [exact Et|]. right. split; reflexivity.
  Qed.

  (** C16: a .foi argument (anything that is not a .fo) writes nothing *)
  Theorem foi_writes_nothing : forall st fs f st' fs',
    is_fo f = false -> step st fs f = inl (st', fs') -> fs' = fs.
  Proof.
    intros st fs f st' fs' Hf H. apply step_ok_spec in H.
    destruct H as (src & out & _ & _ & [[Hx _]|[_ He]]); [congruence|exact He].
  Qed.

  Lemma step_untouched : forall st fs f st' fs' p,
    step st fs f = inl (st', fs') -> (is_fo f = true -> dest f <> p) ->
    files fs' p = files fs p.
  Proof.
    intros st fs f st' fs' p H Hp. apply step_ok_spec in H.
    destruct H as (src & out & _ & _ & [[Hf Hw]|[_ He]]); [|subst; reflexivity].
    apply write_files in Hw. destruct Hw as (_ & Hother & _).
    apply Hother. intros E. apply (Hp Hf). symmetry. exact E.
  Qed.

  (* ---------------------------------------------------------------- the fold *)

  Lemma run_app : forall a b st fs,
    run (a ++ b) st fs =
    match run a st fs with
    | Done st1 fs1 =>
      match run b st1 fs1 with
      | Done x y => Done x y
      | Failed k w x y => Failed (List.length a + k) w x y
      end
    | Failed k w x y => Failed k w x y
    end.
  Proof.
    induction a as [|f a IH]; intros b st fs; cbn [app transpile_files run_with List.length].
    - destruct (run b st fs); reflexivity.
    - unfold transpile_files in *. cbn [run_with].
      destruct (step st fs f) as [[st1 fs1]|w]; [|reflexivity].
      rewrite IH. destruct (run_with state step a st1 fs1) as [st2 fs2|k w x y]; [|reflexivity].
      destruct (run_with state step b st2 fs2); reflexivity.
  Qed.

  (** paths that are not the destination of a .fo argument are never touched, whatever the outcome *)
  Lemma run_untouched : forall args st fs p,
    (forall g, In g args -> is_fo g = true -> dest g <> p) ->
    match run args st fs with
    | Done _ fs' | Failed _ _ _ fs' => files fs' p = files fs p
    end.
  Proof.
    induction args as [|f args IH]; intros st fs p Hp; unfold transpile_files in *; cbn [run_with].
    - reflexivity.
    - destruct (step st fs f) as [[st1 fs1]|w] eqn:Es; [|reflexivity].
      assert (H1 : files fs1 p = files fs p).
      { eapply step_untouched; eauto. intros Hf. apply Hp; [left; reflexivity|exact Hf]. }
      specialize (IH st1 fs1 p ltac:(intros g Hg; apply Hp; right; exact Hg)).
      destruct (run_with state step args st1 fs1); congruence.
  Qed.

  Lemma nth_firstn_lt : forall (l : list path) k i, i < k -> nth_error (firstn k l) i = nth_error l i.
  Proof.
    induction l as [|a l IH]; intros k i H; destruct k, i; cbn; try reflexivity; try lia.
    apply IH. lia.
  Qed.

  Lemma nth_split_firstn : forall (args : list path) i f,
    nth_error args i = Some f -> args = firstn i args ++ f :: skipn (S i) args.
  Proof.
    induction args as [|a args IH]; intros i f H; destruct i; cbn in *; try discriminate.
    - inversion H; subst. reflexivity.
    - f_equal. apply IH. exact H.
  Qed.

  (** C16: exit 0 implies that for every .fo argument the file system maps its destination to
      exactly the translation of that file (as read at that moment) in the state left by the
      earlier arguments — provided no later argument has the same destination, in which case the
      later one is what is found there *)
  Theorem exit0_implies_all_written : forall args st0 fs0 st' fs',
    run args st0 fs0 = Done st' fs' ->
    forall i f, nth_error args i = Some f -> is_fo f = true ->
    (forall j g, i < j -> nth_error args j = Some g -> is_fo g = true -> dest g <> dest f) ->
    exists st_i fs_i src st_i1 out,
      run (firstn i args) st0 fs0 = Done st_i fs_i /\
      read fs_i f = Some src /\ translate st_i src = Some (st_i1, out) /\
      files fs' (dest f) = Some out.
  Proof.
    intros args st0 fs0 st' fs' Hrun i f Hi Hfo Hlater.
    pose proof (nth_split_firstn args i f Hi) as Hsplit.
    rewrite Hsplit in Hrun. rewrite run_app in Hrun.
    destruct (run (firstn i args) st0 fs0) as [st_i fs_i|k w x y] eqn:Epre; [|discriminate].
    unfold transpile_files in Hrun. cbn [run_with] in Hrun.
    destruct (step st_i fs_i f) as [[st1 fs1]|w] eqn:Es; [|discriminate].
    pose proof (run_untouched (skipn (S i) args) st1 fs1 (dest f)) as Hun.
    unfold transpile_files in Hun.
    destruct (run_with state step (skipn (S i) args) st1 fs1) as [a b|k w a b] eqn:Erest; [|discriminate].
    inversion Hrun; subst a b. clear Hrun.
    apply step_ok_spec in Es. destruct Es as (src & out & Hr & Ht & [[_ Hw]|[Hx _]]); [|congruence].
    exists st_i, fs_i, src, st1, out. split; [reflexivity|]. split; [exact Hr|]. split; [exact Ht|].
    rewrite Hun.
    - apply write_files in Hw. apply Hw.
    - intros g Hg Hgfo. apply In_nth_error in Hg. destruct Hg as [n Hn].
      apply (Hlater (S i + n) g); [lia| |exact Hgfo].
      rewrite <- Hn. clear. revert i. induction args as [|a args IH]; intros i.
      + destruct i, n; reflexivity.
      + destruct i; cbn [skipn]; [reflexivity|]. cbn [plus nth_error]. apply IH.
  Qed.

  (** what a failure at argument [k] means: the arguments before it succeeded and produced
      exactly the reported state and file system; the step on argument [k] failed *)
  Lemma failure_spec : forall args st0 fs0 k why st_k fs_k,
    run args st0 fs0 = Failed k why st_k fs_k ->
    exists f, nth_error args k = Some f /\
              run (firstn k args) st0 fs0 = Done st_k fs_k /\
              step st_k fs_k f = inr why.
  Proof.
    induction args as [|a args IH]; intros st0 fs0 k why st_k fs_k H;
      unfold transpile_files in *; cbn [run_with] in H; [discriminate|].
    destruct (step st0 fs0 a) as [[st1 fs1]|w] eqn:Es.
    - destruct (run_with state step args st1 fs1) as [x y|k' w x y] eqn:Er; [discriminate|].
      inversion H; subst. clear H.
      destruct (IH _ _ _ _ _ _ Er) as (f & Hn & Hpre & Hstep).
      exists f. split; [exact Hn|]. split; [|exact Hstep].
      cbn [firstn run_with]. rewrite Es, Hpre. reflexivity.
    - inversion H; subst. exists a. split; [reflexivity|]. split; [reflexivity|exact Es].
  Qed.

  (** C16: on failure nothing is written for the offending argument — the final file system is the
      one left by the arguments before it; in particular the offender's destination holds what it
      held before fc started unless an earlier argument has the same destination *)
  Theorem failure_writes_nothing_for_offender : forall args st0 fs0 k why st_k fs_k,
    run args st0 fs0 = Failed k why st_k fs_k ->
    exists f, nth_error args k = Some f /\
              run (firstn k args) st0 fs0 = Done st_k fs_k /\
              step st_k fs_k f = inr why /\
              ((forall g, In g (firstn k args) -> is_fo g = true -> dest g <> dest f) ->
               files fs_k (dest f) = files fs0 (dest f)).
  Proof.
    intros args st0 fs0 k why st_k fs_k H.
    destruct (failure_spec _ _ _ _ _ _ _ H) as (f & Hn & Hpre & Hstep).
    exists f. repeat (split; [assumption|]).
    intros Hd. pose proof (run_untouched (firstn k args) st0 fs0 (dest f) Hd) as Hu.
    rewrite Hpre in Hu. exact Hu.
  Qed.

  (** C16: on failure at argument [k] the outputs of the arguments before [k] are written and
      complete, and every path that is not the destination of one of them (the outputs of the later
      arguments among them) is as it was *)
  Theorem earlier_outputs_intact : forall args st0 fs0 k why st_k fs_k,
    run args st0 fs0 = Failed k why st_k fs_k ->
    (forall i f, i < k -> nth_error args i = Some f -> is_fo f = true ->
       (forall j g, i < j < k -> nth_error args j = Some g -> is_fo g = true -> dest g <> dest f) ->
       exists st_i fs_i src st_i1 out,
         run (firstn i args) st0 fs0 = Done st_i fs_i /\
         read fs_i f = Some src /\ translate st_i src = Some (st_i1, out) /\
         files fs_k (dest f) = Some out)
    /\ (forall p, (forall g, In g (firstn k args) -> is_fo g = true -> dest g <> p) ->
                  files fs_k p = files fs0 p).
  Proof.
    intros args st0 fs0 k why st_k fs_k H.
    destruct (failure_spec _ _ _ _ _ _ _ H) as (f0 & Hn0 & Hpre & _).
    assert (Hk : k < List.length args) by (apply nth_error_Some; congruence).
    split.
    - intros i f Hik Hi Hfo Hlater.
      assert (Hi' : nth_error (firstn k args) i = Some f).
      { rewrite nth_firstn_lt; [exact Hi|exact Hik]. }
      destruct (exit0_implies_all_written _ _ _ _ _ Hpre i f Hi' Hfo) as (st_i & fs_i & src & st_i1 & out & H1 & H2 & H3 & H4).
      + intros j g Hij Hj Hg.
        assert (Hjk : j < k).
        { assert (Hl : j < List.length (firstn k args)) by (apply nth_error_Some; congruence).
          rewrite firstn_length in Hl. lia. }
        apply (Hlater j g); [lia| |exact Hg].
        rewrite nth_firstn_lt in Hj; [exact Hj|exact Hjk].
      + exists st_i, fs_i, src, st_i1, out. split; [|auto].
        rewrite firstn_firstn in H1. replace (Nat.min i k) with i in H1 by lia. exact H1.
    - intros p Hp. pose proof (run_untouched (firstn k args) st0 fs0 p Hp) as Hu.
      rewrite Hpre in Hu. exact Hu.
  Qed.

  (** exit status: 0 exactly when every argument was processed *)
  Lemma exit_code_zero_iff : forall r, exit_code state r = 0 <-> exists st fs, r = Done st fs.
  Proof.
    intros r. split.
    - destruct r as [st fs|k w st fs]; [eauto|]. destruct w; discriminate.
    - intros (st & fs & ->). reflexivity.
  Qed.
End DriverProofs.

(* ------------------------------------------------------------------ the repaired defect *)

(** before commit 937260d the result of sys.WriteFile was dropped: with an unwritable destination fc
    exited 0 and the requested file is not there *)
Theorem write_failure_exit0_old_refuted :
  exists (translate : unit -> content -> option (unit * content)) (fs0 : fsys) (args : list path),
    match transpile_files_old unit translate fo_is_fo fo_dest args tt fs0 with
    | Done _ fs' => fo_is_fo "x.fo"%string = true /\ In "x.fo"%string args /\
                    files fs' (fo_dest "x.fo"%string) = None
    | Failed _ _ _ _ => False
    end.
Proof.
  exists (fun _ src => Some (tt, src)).
  exists {| files := fun p => if String.eqb p "x.fo"%string then Some [1; 2; 3] else None;
            is_dir := fun p => String.eqb p "gen_x.go"%string;
            unwritable := fun _ => false |}.
  exists ["x.fo"%string].
  vm_compute. split; [reflexivity|]. split; [left; reflexivity|reflexivity].
Qed.
