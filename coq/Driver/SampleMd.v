(** C18 — model of cmd/build_sample_md/build_sample_md.fo (convOne, processListFile).
    Definitions only.  The functions are composed from the models of pkg/strings (Strings.v),
    pkg/buf (Buf.v) and frt.Sprintf1 (Frt.v) exactly as the Folang source composes them.

      let convOne dir oneline =
        let cols = strings.SplitN 2 " " oneline
        let (foFname, title) = (slice.Head cols, slice.Last cols)
        let b = buf.New ()
        frt.Printf1 "process: %s\n" foFname
        let (content, ok) = filepath.Join dir foFname |> sys.ReadFile
        if not ok then frt.Panicf1 "Can't open file %s" foFname
        frt.Sprintf1 "### %s\n\n" title |> buf.Write b
        buf.Write b "```\n" ; buf.Write b content ; buf.Write b "\n```\n\n"
        let base = foFname |> strings.TrimSuffix ".fo"
        let genName = "gen_" + base + ".go"
        frt.Sprintf1 "generated go: [%s]" genName |> buf.Write b
        frt.Sprintf1 "(./%s)" genName |> buf.Write b
        buf.Write b "\n\n"
        buf.String b

      let processListFile destName listPath =
        ... content |> strings.Split "\n" |> slice.Filter strings.IsNotEmpty
                    |> slice.Map (convOne dir) |> strings.Concat "\n"
                    |> strings.AppendHead "## Folang Sample \n\n\n"
                    |> sys.WriteFile (filepath.Join dir destName)

    External behaviour: the file system is a function from paths to contents ([None] = the file
    cannot be read), filepath.Join is a section variable; a Go panic is the [Panic] outcome with
    its message (the process then exits with status 2 before WriteFile is reached, so no
    README.md is written).  slice.Head / slice.Last panic on an empty slice; slice.Filter and
    slice.Map are [filter] and an in-order [map] that stops at the first panic.  The buffer [b] is
    local to convOne (never aliased), so it is a bytes.Buffer value.  The result of sys.WriteFile
    is discarded by the source (a failing write is not modelled). *)
From Coq Require Import List Ascii String ZArith Bool.
From FoVerif Require Import Pkg.Buf Pkg.Strings Pkg.Frt.
Import ListNotations.

Definition nl : ascii := "010"%char.

Definition header : bytes := b "## Folang Sample " ++ [nl; nl; nl].

Definition slice_head (l : list bytes) : outcome bytes :=
  match l with [] => Panic (b "call Head to empty list") | x :: _ => Ok x end.
Definition slice_last (l : list bytes) : outcome bytes :=
  match l with [] => Panic (b "index out of range [-1]") | _ => Ok (last l []) end.

(** frt.Sprintf1 with a string operand; outside the fmt model = a marked panic, which the
    theorems show is never produced *)
Definition sprintf1_s (fmtstr : bytes) (arg : bytes) : outcome bytes :=
  match Sprintf1 fmtstr (GStr arg) with
  | Some s => Ok s
  | None => Panic (b "fmt: outside the modelled fragment")
  end.

Section Render.
  Variable fs : bytes -> option bytes.
  Variable path_join : bytes -> bytes -> bytes.

  Definition convOne (dir oneline : bytes) : outcome bytes :=
    let cols := SplitN 2 (b " ") oneline in
    obind (slice_head cols) (fun foFname =>
    obind (slice_last cols) (fun title =>
    let buf0 := bb_new in
    match Pipe (path_join dir foFname) fs with
    | None => Panic (b "Can't open file " ++ foFname)
    | Some content =>
        obind (sprintf1_s (b "### %s" ++ [nl; nl]) title) (fun s1 =>
        let buf1 := bb_write buf0 s1 in
        let buf2 := bb_write buf1 (b "```" ++ [nl]) in
        let buf3 := bb_write buf2 content in
        let buf4 := bb_write buf3 ([nl] ++ b "```" ++ [nl; nl]) in
        let base := Pipe foFname (TrimSuffix (b ".fo")) in
        let genName := (b "gen_" ++ base) ++ b ".go" in
        obind (sprintf1_s (b "generated go: [%s]") genName) (fun s2 =>
        let buf5 := bb_write buf4 s2 in
        obind (sprintf1_s (b "(./%s)") genName) (fun s3 =>
        let buf6 := bb_write buf5 s3 in
        let buf7 := bb_write buf6 [nl; nl] in
        Ok (bb_string buf7))))
    end)).

  (** slice.Map of a function that may panic: left to right, the first panic wins *)
  Fixpoint map_out (f : bytes -> outcome bytes) (l : list bytes) : outcome (list bytes) :=
    match l with
    | [] => Ok []
    | x :: r => obind (f x) (fun y => obind (map_out f r) (fun ys => Ok (y :: ys)))
    end.

  (** the text handed to sys.WriteFile (dir/README.md), or the panic *)
  Definition render_readme (dir content : bytes) : outcome bytes :=
    let lines := filter IsNotEmpty (Split [nl] content) in
    obind (map_out (convOne dir) lines) (fun secs =>
    Ok (AppendHead header (Concat [nl] secs))).

  (** * specification vocabulary *)

  (** the part before the first space, and the part after it if there is a space *)
  Fixpoint split_space (l : bytes) : bytes * option bytes :=
    match l with
    | [] => ([], None)
    | c :: r =>
        if Ascii.eqb c " " then ([], Some r)
        else let '(f, t) := split_space r in (c :: f, t)
    end.
  Definition line_file (l : bytes) : bytes := fst (split_space l).
  Definition line_title (l : bytes) : bytes :=
    match snd (split_space l) with Some t => t | None => l end.

  Definition gen_name (file : bytes) : bytes := b "gen_" ++ TrimSuffix (b ".fo") file ++ b ".go".

  (** one section, spelled out *)
  Definition section (title file content : bytes) : bytes :=
    b "### " ++ title ++ [nl; nl] ++
    b "```" ++ [nl] ++ content ++ [nl] ++ b "```" ++ [nl; nl] ++
    b "generated go: [" ++ gen_name file ++ b "](./" ++ gen_name file ++ b ")" ++ [nl; nl].

  Definition entries (content : bytes) : list bytes := filter IsNotEmpty (Split [nl] content).

  Definition readable (dir line : bytes) : Prop := fs (path_join dir (line_file line)) <> None.
End Render.

(** * Runs in a directory that already has a README.md

    sys.WriteFile is os.WriteFile: the file is created or TRUNCATED and then written, so after a
    successful run README.md holds exactly the rendering, whatever it held before; a run that
    panics never reaches sys.WriteFile, so README.md stays as it was ([None] = absent).
    The sample files and the list may change between the runs of a history: every run comes with
    its own file system.  (README.md itself is assumed not to be a listed file.) *)
Section History.
  Variable path_join : bytes -> bytes -> bytes.

  (** README.md after one run, given README.md before it *)
  Definition tool_run (fs : bytes -> option bytes) (before : option bytes) (dir content : bytes)
    : option bytes :=
    match render_readme fs path_join dir content with
    | Ok s => Some s
    | Panic _ => before
    end.

  Fixpoint tool_history (before : option bytes) (dir : bytes)
           (runs : list ((bytes -> option bytes) * bytes)) : option bytes :=
    match runs with
    | [] => before
    | (fs, content) :: r => tool_history (tool_run fs before dir content) dir r
    end.
End History.

(** the instance run by the oracle: files given as an association list, Join = dir/name *)
Definition fs_of (files : list (bytes * bytes)) (p : bytes) : option bytes :=
  match find (fun kv => beq (fst kv) p) files with Some kv => Some (snd kv) | None => None end.
Definition join_slash (dir name : bytes) : bytes := dir ++ b "/" ++ name.
Definition render_files (files : list (bytes * bytes)) (dir content : bytes) : outcome bytes :=
  render_readme (fs_of files) join_slash dir content.

(** README.md after each run of a history (oracle) *)
Fixpoint history_files (before : option bytes) (dir : bytes)
         (runs : list (list (bytes * bytes) * bytes)) : list (option bytes) :=
  match runs with
  | [] => []
  | (files, content) :: r =>
      let after := tool_run join_slash (fs_of files) before dir content in
      after :: history_files after dir r
  end.
