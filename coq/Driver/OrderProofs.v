From Coq Require Import List Arith Bool Permutation Lia Sorted.
From FoVerif Require Import Driver.Order.
Import ListNotations.

Section Map.
  Variable V : Type.
  Notation amap := (amap V).

  Lemma get_add_same k v (m : amap) : get k (add k v m) = Some v.
  Proof.
    induction m as [|[k' v'] m IH]; cbn; [now rewrite Nat.eqb_refl|].
    destruct (Nat.eqb k k') eqn:E; cbn; [now rewrite Nat.eqb_refl|now rewrite E].
  Qed.

  Lemma get_add_other k k' v (m : amap) : k' <> k -> get k' (add k v m) = get k' m.
  Proof.
    intros Hne. induction m as [|[k0 v0] m IH]; cbn.
    - destruct (Nat.eqb k' k) eqn:E; [apply Nat.eqb_eq in E; contradiction|reflexivity].
    - destruct (Nat.eqb k k0) eqn:E; cbn.
      + apply Nat.eqb_eq in E; subst k0.
        destruct (Nat.eqb k' k) eqn:E'; [apply Nat.eqb_eq in E'; contradiction|reflexivity].
      + destruct (Nat.eqb k' k0); [reflexivity|exact IH].
  Qed.

  Lemma add_all_cons k v (l : list (nat * V)) (m : amap) : add_all ((k, v) :: l) m = add_all l (add k v m).
  Proof. reflexivity. Qed.

  Lemma get_add_all_notin (l : list (nat * V)) : forall (m : amap) k,
    ~ In k (map fst l) -> get k (add_all l m) = get k m.
  Proof.
    induction l as [|[k0 v0] l IH]; intros m k Hni; [reflexivity|].
    rewrite add_all_cons. cbn in Hni.
    rewrite IH by tauto. apply get_add_other. intros ->. apply Hni. now left.
  Qed.

  (** same key => same value *)
  Definition functional (l : list (nat * V)) : Prop :=
    forall k v1 v2, In (k, v1) l -> In (k, v2) l -> v1 = v2.

  Lemma get_add_all_in (l : list (nat * V)) : forall (m : amap) k v,
    functional l -> In (k, v) l -> get k (add_all l m) = Some v.
  Proof.
    induction l as [|[k0 v0] l IH]; intros m k v Hf Hin; [destruct Hin|].
    rewrite add_all_cons.
    destruct (in_dec Nat.eq_dec k (map fst l)) as [Hk|Hk].
    - apply in_map_iff in Hk. destruct Hk as ([k' v'] & E & Hin'). cbn in E; subst k'.
      assert (v' = v) by (apply (Hf k); [now right|exact Hin]). subst v'.
      apply IH; [|exact Hin']. intros k1 a b Ha Hb. apply (Hf k1); now right.
    - rewrite get_add_all_notin by exact Hk.
      destruct Hin as [E|Hin].
      + inversion E; subst. apply get_add_same.
      + exfalso. apply Hk. apply in_map_iff. exists (k, v). auto.
  Qed.

  (** the order in which a functional list of entries is added does not matter *)
  Theorem add_all_perm (l1 l2 : list (nat * V)) (m : amap) :
    Permutation l1 l2 -> functional l1 -> forall k, get k (add_all l1 m) = get k (add_all l2 m).
  Proof.
    intros Hp Hf k.
    assert (Hf2 : functional l2).
    { intros k0 a b Ha Hb. apply (Hf k0); eapply Permutation_in; try eassumption; now apply Permutation_sym. }
    destruct (in_dec Nat.eq_dec k (map fst l1)) as [Hk|Hk].
    - apply in_map_iff in Hk. destruct Hk as ([k' v] & E & Hin). cbn in E; subst k'.
      rewrite (get_add_all_in l1 m k v Hf Hin).
      symmetry. apply get_add_all_in; [exact Hf2|]. eapply Permutation_in; eassumption.
    - rewrite get_add_all_notin by exact Hk. symmetry. apply get_add_all_notin.
      intros Hin. apply Hk. eapply Permutation_in; [apply Permutation_sym, Permutation_map, Hp|exact Hin].
  Qed.

  Lemma nodup_keys_functional (l : list (nat * V)) : NoDup (map fst l) -> functional l.
  Proof.
    induction l as [|[k0 v0] l IH]; intros Hnd k a b Ha Hb; [destruct Ha|].
    inversion Hnd as [|? ? Hni Hnd']; subst.
    destruct Ha as [Ea|Ha]; destruct Hb as [Eb|Hb].
    - congruence.
    - inversion Ea; subst. exfalso. apply Hni. apply in_map_iff. exists (k, b). auto.
    - inversion Eb; subst. exfalso. apply Hni. apply in_map_iff. exists (k, a). auto.
    - eapply IH; eassumption.
  Qed.
End Map.
Arguments functional {V}.

(** ---- piRegAll ---- *)
Theorem pi_reg_all_order_independent {V} (full_name : nat -> nat) (e1 e2 : list (nat * V)) scope :
  (forall a b, full_name a = full_name b -> a = b) ->
  NoDup (map fst e1) -> Permutation e1 e2 ->
  forall k, get k (pi_reg_all full_name e1 scope) = get k (pi_reg_all full_name e2 scope).
Proof.
  intros Hinj Hnd Hp k. unfold pi_reg_all. apply add_all_perm.
  - apply Permutation_map, Hp.
  - apply nodup_keys_functional. rewrite map_map. cbn.
    rewrite <- (map_map fst full_name). apply FinFun.Injective_map_NoDup; [exact Hinj|exact Hnd].
Qed.

(** ---- eqsUnion ---- *)
Lemma const_functional {V} (v : V) (ks : list nat) : functional (map (fun k => (k, v)) ks).
Proof.
  intros k a b Ha Hb. apply in_map_iff in Ha. apply in_map_iff in Hb.
  destruct Ha as (x & Ex & _). destruct Hb as (y & Ey & _). congruence.
Qed.

Theorem eqs_union_order_independent (a1 a2 b1 b2 : list nat) :
  Permutation a1 a2 -> Permutation b1 b2 ->
  forall k, get k (eqs_union a1 b1) = get k (eqs_union a2 b2).
Proof.
  intros Ha Hb k. unfold eqs_union.
  rewrite (add_all_perm bool _ (map (fun k => (k, true)) b2) _ (Permutation_map _ Hb) (const_functional true b1)).
  (* the targets differ: compare lookups through the characterisation *)
  destruct (in_dec Nat.eq_dec k (map fst (map (fun k => (k, true)) b2))) as [Hk|Hk].
  - apply in_map_iff in Hk. destruct Hk as ([k' v] & E & Hin). cbn in E; subst k'.
    rewrite (get_add_all_in bool _ (add_all (map (fun k => (k, true)) a1) []) k v (const_functional true b2) Hin).
    rewrite (get_add_all_in bool _ (add_all (map (fun k => (k, true)) a2) []) k v (const_functional true b2) Hin). reflexivity.
  - rewrite (get_add_all_notin bool _ (add_all (map (fun k => (k, true)) a1) []) k Hk).
    rewrite (get_add_all_notin bool _ (add_all (map (fun k => (k, true)) a2) []) k Hk).
    apply (add_all_perm bool _ _ []); [apply Permutation_map, Ha|apply const_functional].
Qed.

(** membership: the union contains exactly the keys of both *)
Theorem eqs_union_spec (a b : list nat) k :
  get k (eqs_union a b) = if in_dec Nat.eq_dec k (a ++ b) then Some true else None.
Proof.
  unfold eqs_union.
  destruct (in_dec Nat.eq_dec k b) as [Hb|Hb].
  - rewrite (get_add_all_in bool _ _ k true (const_functional true b)).
    + destruct (in_dec Nat.eq_dec k (a ++ b)) as [_|Hn]; [reflexivity|]. exfalso. apply Hn, in_or_app. now right.
    + apply in_map_iff. exists k. auto.
  - rewrite get_add_all_notin.
    2:{ rewrite map_map. cbn. rewrite map_id. exact Hb. }
    destruct (in_dec Nat.eq_dec k a) as [Ha|Ha].
    + rewrite (get_add_all_in bool _ _ k true (const_functional true a)).
      * destruct (in_dec Nat.eq_dec k (a ++ b)) as [_|Hn]; [reflexivity|]. exfalso. apply Hn, in_or_app. now left.
      * apply in_map_iff. exists k. auto.
    + rewrite get_add_all_notin.
      2:{ rewrite map_map. cbn. rewrite map_id. exact Ha. }
      destruct (in_dec Nat.eq_dec k (a ++ b)) as [Hn|_]; [|reflexivity].
      apply in_app_or in Hn. tauto.
Qed.

(** ---- rsRegisterNewEI ---- *)
Theorem rs_register_order_independent {V} (ei : V) (m1 m2 : list nat) resolver :
  Permutation m1 m2 ->
  forall k, get k (rs_register_new_ei ei m1 resolver) = get k (rs_register_new_ei ei m2 resolver).
Proof.
  intros Hp k. unfold rs_register_new_ei.
  apply add_all_perm; [apply Permutation_map, Hp|apply const_functional].
Qed.

(** ---- record literal resolution ---- *)
Definition name_le (a b : recfac) : Prop := r_name a <= r_name b.

Lemma sorted_perm_unique (l1 l2 : list recfac) :
  Sorted name_le l1 -> Sorted name_le l2 -> NoDup (map r_name l1) -> Permutation l1 l2 ->
  hd_error l1 = hd_error l2.
Proof.
  intros S1 S2 Hnd Hp.
  destruct l1 as [|x l1]; destruct l2 as [|y l2]; cbn; try reflexivity.
  - apply Permutation_nil in Hp. discriminate.
  - apply Permutation_sym, Permutation_nil in Hp. discriminate.
  - f_equal.
    apply Sorted_StronglySorted in S1; [|intros a b c; unfold name_le; lia].
    apply Sorted_StronglySorted in S2; [|intros a b c; unfold name_le; lia].
    inversion S1 as [|? ? _ F1]; inversion S2 as [|? ? _ F2]; subst.
    assert (Hy : In y (x :: l1)) by (eapply Permutation_in; [apply Permutation_sym, Hp|now left]).
    assert (Hx : In x (y :: l2)) by (eapply Permutation_in; [apply Hp|now left]).
    destruct Hy as [E|Hy]; [exact E|]. destruct Hx as [E|Hx]; [now symmetry|].
    rewrite Forall_forall in F1, F2.
    pose proof (F1 y Hy) as L1. pose proof (F2 x Hx) as L2. unfold name_le in *.
    assert (En : r_name x = r_name y) by lia.
    (* two distinct list positions with the same name contradict NoDup *)
    exfalso. cbn in Hnd. inversion Hnd as [|? ? Hni _]; subst. apply Hni.
    rewrite En. apply in_map. exact Hy.
Qed.

Section RecLookup.
  Variable sort1 sort2 : list recfac -> list recfac.
  Hypothesis sort1_sorted : forall l, Sorted name_le (sort1 l).
  Hypothesis sort1_perm : forall l, Permutation (sort1 l) l.
  Hypothesis sort2_sorted : forall l, Sorted name_le (sort2 l).
  Hypothesis sort2_perm : forall l, Permutation (sort2 l) l.

  Lemma filter_perm {A} (f : A -> bool) (l1 l2 : list A) : Permutation l1 l2 -> Permutation (filter f l1) (filter f l2).
  Proof.
    induction 1 as [|x l1 l2 Hp IH|x y l|l1 l2 l3 H1 IH1 H2 IH2]; cbn.
    - constructor.
    - destruct (f x); [now constructor|exact IH].
    - destruct (f x), (f y); try reflexivity. constructor.
    - eapply Permutation_trans; eassumption.
  Qed.

  (** whatever the enumeration order of the scope's record dictionary and whichever (unstable)
      sorting routine is used, the record a literal resolves to is the same *)
  Theorem rec_lookup_order_independent (e1 e2 : list recfac) fs :
    NoDup (map r_name e1) -> Permutation e1 e2 ->
    rec_lookup sort1 e1 fs = rec_lookup sort2 e2 fs.
  Proof.
    intros Hnd Hp. unfold rec_lookup.
    apply sorted_perm_unique; [apply sort1_sorted|apply sort2_sorted| |].
    - assert (Hp1 : Permutation (map r_name (sort1 (filter (fields_match fs) e1))) (map r_name (filter (fields_match fs) e1)))
        by (apply Permutation_map, sort1_perm).
      eapply Permutation_NoDup; [apply Permutation_sym, Hp1|].
      clear -Hnd. induction e1 as [|x e IH]; cbn; [constructor|].
      cbn in Hnd. inversion Hnd as [|? ? Hni Hnd']; subst.
      destruct (fields_match fs x); cbn; [|auto].
      constructor; [|auto]. intros Hin. apply Hni.
      apply in_map_iff in Hin. destruct Hin as (y & E & Hy). apply filter_In in Hy.
      apply in_map_iff. exists y. tauto.
    - eapply Permutation_trans; [apply sort1_perm|].
      eapply Permutation_trans; [apply filter_perm, Hp|apply Permutation_sym, sort2_perm].
  Qed.
End RecLookup.

(** the repaired defect: first match in enumeration order depends on the order *)
Theorem rec_lookup_old_order_dependent_refuted :
  exists e1 e2 fs, Permutation e1 e2 /\ NoDup (map r_name e1) /\ rec_lookup_old e1 fs <> rec_lookup_old e2 fs.
Proof.
  exists [mkRec 1 [10; 11]; mkRec 2 [10; 11]; mkRec 3 [10; 11]],
         [mkRec 3 [10; 11]; mkRec 1 [10; 11]; mkRec 2 [10; 11]], [10; 11].
  split; [|split].
  - apply Permutation_sym. change (Permutation ([mkRec 3 [10;11]] ++ [mkRec 1 [10;11]; mkRec 2 [10;11]]) ([mkRec 1 [10;11]; mkRec 2 [10;11]] ++ [mkRec 3 [10;11]])).
    apply Permutation_app_comm.
  - cbn. repeat constructor; cbn; intuition; try discriminate.
  - vm_compute. discriminate.
Qed.

(** the oracle's concrete sort satisfies the hypotheses *)
Lemma insert_rec_perm r l : Permutation (insert_rec r l) (r :: l).
Proof.
  induction l as [|x l IH]; cbn; [reflexivity|].
  destruct (r_name r <=? r_name x); [reflexivity|].
  eapply Permutation_trans; [apply perm_skip, IH|apply perm_swap].
Qed.
Lemma isort_perm l : Permutation (isort l) l.
Proof.
  induction l as [|x l IH]; cbn; [constructor|].
  eapply Permutation_trans; [apply insert_rec_perm|now constructor].
Qed.
Lemma insert_rec_sorted r l : Sorted name_le l -> Sorted name_le (insert_rec r l).
Proof.
  induction l as [|x l IH]; cbn; intros S; [repeat constructor|].
  destruct (r_name r <=? r_name x) eqn:E.
  - apply Nat.leb_le in E. constructor; [exact S|constructor; exact E].
  - apply Nat.leb_gt in E. inversion S as [|? ? S' Hd]; subst. constructor; [auto|].
    destruct l as [|y l]; cbn.
    + constructor. unfold name_le. lia.
    + destruct (r_name r <=? r_name y); constructor; unfold name_le; try lia.
      inversion Hd; subst. assumption.
Qed.
Lemma isort_sorted l : Sorted name_le (isort l).
Proof. induction l as [|x l IH]; cbn; [constructor|now apply insert_rec_sorted]. Qed.
