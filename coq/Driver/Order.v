(** C05 model: every place where fc enumerates a dictionary (dict.Keys / Values / KVs expose Go's
    randomised map order). A dictionary is a key-unique association list; an enumeration is ANY
    permutation of its entries. Each mechanism is a function of the enumeration. Definitions only. *)
From Coq Require Import List Arith Bool Permutation.
Import ListNotations.

Section Map.
  Variable V : Type.
  Definition amap := list (nat * V).          (* keys are names, encoded as numbers *)

  Fixpoint get (k : nat) (m : amap) : option V :=
    match m with
    | [] => None
    | (k', v) :: m' => if Nat.eqb k k' then Some v else get k m'
    end.

  Fixpoint add (k : nat) (v : V) (m : amap) : amap :=
    match m with
    | [] => [(k, v)]
    | (k', v') :: m' => if Nat.eqb k k' then (k, v) :: m' else (k', v') :: add k v m'
    end.

  (** slice.Iter (fun kv -> dict.Add target …) over an enumeration *)
  Definition add_all (enum : list (nat * V)) (target : amap) : amap :=
    fold_left (fun m kv => add (fst kv) (snd kv) m) enum target.
End Map.
Arguments get {V}. Arguments add {V}. Arguments add_all {V}.

(** ---- piRegAll: every (name, factory) of a package_info registered in the scope under
    piFullName name (an injective renaming) ---- *)
Definition pi_reg_all {V} (full_name : nat -> nat) (enum : list (nat * V)) (scope : amap V) : amap V :=
  add_all (map (fun kv => (full_name (fst kv), snd kv)) enum) scope.

(** ---- eqsUnion: a fresh set receiving the keys of es1 then the keys of es2 ---- *)
Definition eqs_union (keys1 keys2 : list nat) : amap bool :=
  add_all (map (fun k => (k, true)) keys2) (add_all (map (fun k => (k, true)) keys1) []).

(** ---- rsRegisterNewEI: the same EquivInfo registered under every member of its set ---- *)
Definition rs_register_new_ei {V} (ei : V) (members : list nat) (resolver : amap V) : amap V :=
  add_all (map (fun k => (k, ei)) members) resolver.

(** ---- scLookupRecFacCur (after the fix): all records whose field names match, sorted by name,
    first one. [sort] is any function returning a sorted permutation (slices.SortFunc is unstable). ---- *)
Record recfac := mkRec { r_name : nat; r_fields : list nat }.

Definition fields_match (fs : list nat) (r : recfac) : bool :=
  if list_eq_dec Nat.eq_dec (r_fields r) fs then true else false.

Section RecLookup.
  Variable sort : list recfac -> list recfac.
  Definition rec_lookup (enum : list recfac) (fs : list nat) : option recfac :=
    hd_error (sort (filter (fields_match fs) enum)).
End RecLookup.

(** the old code: first match in enumeration order *)
Definition rec_lookup_old (enum : list recfac) (fs : list nat) : option recfac :=
  find (fields_match fs) enum.

(** a concrete sort for examples / the oracle: insertion sort by name *)
Fixpoint insert_rec (r : recfac) (l : list recfac) : list recfac :=
  match l with
  | [] => [r]
  | x :: l' => if r_name r <=? r_name x then r :: l else x :: insert_rec r l'
  end.
Definition isort (l : list recfac) : list recfac := fold_right insert_rec [] l.

(** ---- inventory: the enumeration sites the theorems cover, as "file:function:enumerator".
    gen/DictSites.v (regenerated from the source on every run) proves that the source has no other. *)
From Coq Require Import String.
Definition modelled_sites : list string :=
  [ "parse_state.fo:scLookupRecFacCur:Values";   (* rec_lookup *)
    "parse_state.fo:piRegAll:KVs";               (* pi_reg_all (functions and types) *)
    "parser.fo:exaustiveCheck:KVs";              (* Front/Exhaust.v: decision_order_independent *)
    "infer.fo:eqsItems:Keys";                    (* rs_register_new_ei iterates eqsItems *)
    "infer.fo:eqsUnion:Keys" ]%string.           (* eqs_union *)
