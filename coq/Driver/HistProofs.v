From Coq Require Import List Arith Bool Lia.
From FoVerif Require Import Driver.Hist.
Import ListNotations.

(** two scopes agree on a set of names *)
Definition agree_on (ns : list nat) (s1 s2 : scope) : Prop :=
  forall n, In n ns -> lookup n s1 = lookup n s2.

Lemma forallb_ext_in' {A} (f g : A -> bool) l : (forall a, In a l -> f a = g a) -> forallb f l = forallb g l.
Proof.
  induction l as [|x l IH]; intros H; cbn; [reflexivity|].
  rewrite (H x) by now left. f_equal. apply IH. intros a Ha. apply H. now right.
Qed.

Lemma in_firstn {A} (x : A) k l : In x (firstn k l) -> In x l.
Proof.
  revert l; induction k as [|k IH]; intros [|y l]; cbn; try tauto.
  intros [->|H]; [now left|right; now apply IH].
Qed.

(** FRAME: what is emitted for d depends only on d and on the declarations it refers to *)
Theorem frame s1 s2 d : agree_on (d_refs d) s1 s2 -> emit s1 d = emit s2 d.
Proof.
  intros H. unfold emit. f_equal. apply map_ext_in. exact H.
Qed.

Theorem frame_accept s1 s2 d : agree_on (d_refs d) s1 s2 ->
  (exists r, step s1 d = Some r) <-> (exists r, step s2 d = Some r).
Proof.
  intros H. unfold step.
  assert (E : forallb (declared s1) (d_refs d) = forallb (declared s2) (d_refs d)).
  { apply forallb_ext_in'. intros n Hn. unfold declared. now rewrite (H n Hn). }
  rewrite E. destruct (forallb (declared s2) (d_refs d)); split; intros [r Hr]; eauto; discriminate.
Qed.

(** a universe of definitions with unique names: the same name always means the same definition *)
Definition consistent (h1 h2 : list def) : Prop :=
  forall d1 d2, In d1 h1 -> In d2 h2 -> d_name d1 = d_name d2 -> d1 = d2.

Lemma lookup_in n s d : lookup n s = Some d -> In d s /\ d_name d = n.
Proof.
  induction s as [|x s IH]; cbn; [discriminate|].
  destruct (Nat.eqb (d_name x) n) eqn:E.
  - intros H; inversion H; subst. split; [now left|now apply Nat.eqb_eq].
  - intros H. destruct (IH H). split; [now right|assumption].
Qed.

Lemma lookup_some_of_in n s : (exists d, In d s /\ d_name d = n) -> exists d, lookup n s = Some d.
Proof.
  induction s as [|x s IH]; intros (d & Hin & Hn); [destruct Hin|]. cbn.
  destruct (Nat.eqb (d_name x) n) eqn:E; [eauto|].
  destruct Hin as [->|Hin]; [rewrite Hn, Nat.eqb_refl in E; discriminate|].
  apply IH. eauto.
Qed.

(** the scope reached by a run is the reversed history on top of the initial scope *)
Lemma run_defs_scope ds : forall s s' es, run_defs s ds = Some (s', es) -> s' = rev ds ++ s.
Proof.
  induction ds as [|d ds IH]; intros s s' es H; cbn in H.
  - inversion H; reflexivity.
  - destruct (step s d) as [[s1 e]|] eqn:Hs; [|discriminate].
    destruct (run_defs s1 ds) as [[s2 es']|] eqn:Hr; [|discriminate].
    inversion H; subst. unfold step in Hs. destruct (forallb _ _); [|discriminate].
    inversion Hs; subst. rewrite (IH _ _ _ Hr). cbn. now rewrite <- app_assoc.
Qed.

(** the emitted record of the k-th definition of an accepted history is emit (prefix) d *)
Lemma run_defs_nth ds : forall s s' es, run_defs s ds = Some (s', es) ->
  forall k d, nth_error ds k = Some d -> nth_error es k = Some (emit (rev (firstn k ds) ++ s) d)
              /\ forallb (declared (rev (firstn k ds) ++ s)) (d_refs d) = true.
Proof.
  induction ds as [|d0 ds IH]; intros s s' es H k d Hk; [destruct k; discriminate|].
  cbn in H. destruct (step s d0) as [[s1 e]|] eqn:Hs; [|discriminate].
  destruct (run_defs s1 ds) as [[s2 es']|] eqn:Hr; [|discriminate].
  inversion H; subst. unfold step in Hs. destruct (forallb (declared s) (d_refs d0)) eqn:Hf; [|discriminate].
  inversion Hs; subst.
  destruct k as [|k]; cbn in *.
  - inversion Hk; subst. split; [reflexivity|exact Hf].
  - destruct (IH _ _ _ Hr k d Hk) as [E1 E2]. rewrite <- app_assoc. cbn. split; assumption.
Qed.

(** HISTORY INDEPENDENCE: in any two accepted histories over a consistent universe, a definition that
    occurs in both is emitted identically (its references were declared before it in both, so they
    resolve to the same declarations) — this covers insertion, deletion, reordering of unrelated
    definitions, and cutting into files (a cut does not change the sequence of root statements) *)
Theorem history_independence h1 h2 s1 s2 es1 es2 k1 k2 d :
  run_defs [] h1 = Some (s1, es1) -> run_defs [] h2 = Some (s2, es2) ->
  consistent h1 h2 ->
  nth_error h1 k1 = Some d -> nth_error h2 k2 = Some d ->
  nth_error es1 k1 = nth_error es2 k2.
Proof.
  intros R1 R2 Hc N1 N2.
  destruct (run_defs_nth _ _ _ _ R1 _ _ N1) as [E1 F1].
  destruct (run_defs_nth _ _ _ _ R2 _ _ N2) as [E2 F2].
  rewrite E1, E2. f_equal. apply frame. intros n Hn. rewrite !app_nil_r in *.
  rewrite forallb_forall in F1, F2.
  pose proof (F1 n Hn) as D1. pose proof (F2 n Hn) as D2. unfold declared in D1, D2.
  destruct (lookup n (rev (firstn k1 h1))) as [a|] eqn:L1; [|discriminate].
  destruct (lookup n (rev (firstn k2 h2))) as [b|] eqn:L2; [|discriminate].
  f_equal. apply lookup_in in L1, L2. destruct L1 as [I1 N1']. destruct L2 as [I2 N2'].
  apply Hc; [| |congruence].
  - apply in_rev in I1. eapply in_firstn; eassumption.
  - apply in_rev in I2. eapply in_firstn; eassumption.
Qed.

(** cutting a history into files does not change the sequence of root statements the single parse
    state processes: later files see earlier files' declarations *)
Lemma run_defs_app ds1 : forall ds2 s,
  run_defs s (ds1 ++ ds2) =
  match run_defs s ds1 with
  | None => None
  | Some (s1, es1) =>
    match run_defs s1 ds2 with
    | None => None
    | Some (s2, es2) => Some (s2, es1 ++ es2)
    end
  end.
Proof.
  induction ds1 as [|d ds1 IH]; intros ds2 s; cbn.
  - destruct (run_defs s ds2) as [[s2 es2]|]; reflexivity.
  - destruct (step s d) as [[s1 e]|]; [|reflexivity]. rewrite IH.
    destruct (run_defs s1 ds1) as [[s1' es1]|]; [|reflexivity].
    destruct (run_defs s1' ds2) as [[s2 es2]|]; reflexivity.
Qed.

Theorem files_are_one_history fs : forall s,
  match run_files s fs, run_defs s (concat (map f_defs fs)) with
  | Some (s1, _), Some (s2, _) => s1 = s2
  | None, None => True
  | _, _ => False
  end.
Proof.
  induction fs as [|f fs IH]; intros s; cbn; [auto|].
  rewrite run_defs_app.
  destruct (run_defs s (f_defs f)) as [[s1 es1]|]; [|exact I].
  specialize (IH s1).
  destruct (run_files s1 fs) as [[s2 outs]|]; destruct (run_defs s1 (concat (map f_defs fs))) as [[s3 es]|]; tauto.
Qed.

(** accept/reject of a multi-file invocation = accept/reject of the concatenated history *)
Theorem files_accept_iff fs s :
  (exists r, run_files s fs = Some r) <-> (exists r, run_defs s (concat (map f_defs fs)) = Some r).
Proof.
  pose proof (files_are_one_history fs s) as H.
  destruct (run_files s fs) as [[s1 outs]|]; destruct (run_defs s (concat (map f_defs fs))) as [[s2 es]|];
    try tauto; split; intros [r Hr]; eauto; discriminate.
Qed.

(** each X.fo argument yields gen_X (in argument order), a .foi argument yields no file *)
Theorem files_written_exactly fs : forall s s' outs, run_files s fs = Some (s', outs) ->
  map fst outs = map f_name (filter f_is_fo fs).
Proof.
  induction fs as [|f fs IH]; intros s s' outs H; cbn in H.
  - inversion H; reflexivity.
  - destruct (run_defs s (f_defs f)) as [[s1 es]|]; [|discriminate].
    destruct (run_files s1 fs) as [[s2 outs']|] eqn:R; [|discriminate].
    inversion H; subst. cbn. destruct (f_is_fo f); cbn; [f_equal|]; eapply IH; eassumption.
Qed.

(** the content of gen_X is what the definitions of X emit in the scope left by everything before *)
Theorem file_content fs : forall s s' outs, run_files s fs = Some (s', outs) ->
  forall pre f post, fs = pre ++ f :: post -> f_is_fo f = true ->
  exists s0 s1 es, run_defs s (concat (map f_defs pre)) = Some (s0, es) /\
                   exists es_f, run_defs s0 (f_defs f) = Some (s1, es_f) /\ In (f_name f, es_f) outs.
Proof.
  induction fs as [|f0 fs IH]; intros s s' outs H pre f post E Hfo; [destruct pre; discriminate|].
  cbn in H. destruct (run_defs s (f_defs f0)) as [[s1 es1]|] eqn:R1; [|discriminate].
  destruct (run_files s1 fs) as [[s2 outs']|] eqn:R2; [|discriminate].
  inversion H; subst. destruct pre as [|p pre]; cbn in E; inversion E; subst.
  - exists s, s1, []. cbn. split; [reflexivity|]. exists es1. split; [exact R1|]. rewrite Hfo. now left.
  - destruct (IH _ _ _ R2 pre f post eq_refl Hfo) as (s0 & s1' & es & Hr & es_f & Hf & Hin).
    exists s0, s1', (es1 ++ es). cbn. rewrite run_defs_app, R1, Hr. split; [reflexivity|].
    exists es_f. split; [exact Hf|]. destruct (f_is_fo p); [now right|exact Hin].
Qed.

(** ---- temporaries ---- *)
(** parse-time temporaries of a definition never depend on the history *)
Theorem parse_temps_history_free d : number_parse d = seq 1 (d_ptemps d).
Proof. reflexivity. Qed.

(** emission-time temporaries of a file are consecutive, starting right after the counter left by
    parsing: every definition gets exactly d_etemps fresh numbers, so two histories differ only by a
    shift of these numbers (a renumbering) *)
Lemma number_emit_spec ds : forall c,
  let (ns, c') := number_emit c ds in
  c' = c + fold_right (fun d a => d_etemps d + a) 0 ds /\
  map fst ns = map d_name ds /\
  forall k d, nth_error ds k = Some d ->
    nth_error ns k = Some (d_name d, seq (S (c + fold_right (fun d a => d_etemps d + a) 0 (firstn k ds))) (d_etemps d)).
Proof.
  induction ds as [|d ds IH]; intros c; cbn.
  - split; [lia|]. split; [reflexivity|]. intros [|k] d H; discriminate.
  - specialize (IH (c + d_etemps d)). destruct (number_emit (c + d_etemps d) ds) as [rest c'].
    destruct IH as (E1 & E2 & E3). split; [lia|]. split; [cbn; now f_equal|].
    intros [|k] d0 H; cbn in *.
    + inversion H; subst. now rewrite Nat.add_0_r.
    + rewrite (E3 k d0 H). do 3 f_equal. lia.
Qed.

Theorem emit_temps_are_a_shift ds c1 c2 k d :
  nth_error ds k = Some d ->
  exists base, nth_error (fst (number_emit c1 ds)) k = Some (d_name d, seq (S (c1 + base)) (d_etemps d)) /\
               nth_error (fst (number_emit c2 ds)) k = Some (d_name d, seq (S (c2 + base)) (d_etemps d)).
Proof.
  intros H. exists (fold_right (fun d a => d_etemps d + a) 0 (firstn k ds)).
  pose proof (number_emit_spec ds c1) as S1. pose proof (number_emit_spec ds c2) as S2.
  destruct (number_emit c1 ds) as [n1 c1']. destruct (number_emit c2 ds) as [n2 c2'].
  destruct S1 as (_ & _ & S1). destruct S2 as (_ & _ & S2). cbn. split; [now apply S1|now apply S2].
Qed.
