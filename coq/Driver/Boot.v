(** C04: bootstrap fixed point. [build] = go build of wrapper.go + gen_*.go, [run] = the regeneration
    recipe (fc on the sources, gofmt). Both are deterministic functions here; that they are is C05.
    If one regeneration reproduces the checked-in generated files, every later generation does. *)
Section Boot.
  Variables Gen Bin Src : Type.
  Variable build : Gen -> Bin.
  Variable run : Bin -> Src -> Gen.
  Variable s : Src.
  Variable g0 : Gen.

  Fixpoint generation (n : nat) : Gen :=
    match n with
    | O => g0
    | S n => run (build (generation n)) s
    end.

  Lemma regen_fixpoint_all_generations :
    run (build g0) s = g0 -> forall n, generation n = g0.
  Proof.
    intros H n. induction n as [|n IH]; [reflexivity|]. cbn. rewrite IH. exact H.
  Qed.

  (** a tool built from regenerated sources (build_sample_md) behaves as the one built from g0 *)
  Lemma rebuilt_tool_same : run (build g0) s = g0 -> forall n, build (generation n) = build g0.
  Proof. intros H n. now rewrite regen_fixpoint_all_generations. Qed.
End Boot.
