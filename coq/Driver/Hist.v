(** C07 model: the root-level state machine. One parse state is folded over all files of an
    invocation (main.fo transpileFiles); each root statement is checked against what has been declared
    so far; the emitted text of a definition is a function of the definition itself and of the
    declarations it refers to. Temporaries: the counter restarts at every root `let` while PARSING
    (psResetTmpCtx) and is consumed by `_.field` shorthands; emission of a whole file happens after the
    file was parsed and continues from the counter left by the file's last root let, consuming one
    temporary per union match that binds a payload. Definitions only. *)
From Coq Require Import List Arith Bool.
Import ListNotations.

Inductive dkind := KType | KLet.

Record def := mkDef {
  d_name : nat;
  d_kind : dkind;
  d_refs : list nat;      (* names of the declarations the body refers to *)
  d_body : nat;           (* the definition's own text, abstractly *)
  d_ptemps : nat;         (* temporaries consumed while parsing (shorthand field access) *)
  d_etemps : nat          (* temporaries consumed while emitting (payload-binding matches) *)
}.

Definition scope := list def.           (* most recent first *)

Fixpoint lookup (n : nat) (s : scope) : option def :=
  match s with
  | [] => None
  | d :: s' => if Nat.eqb (d_name d) n then Some d else lookup n s'
  end.

Definition declared (s : scope) (n : nat) : bool :=
  match lookup n s with Some _ => true | None => false end.

(** what is emitted for a definition, up to the numbering of temporaries: its own text and the
    declarations it refers to (as looked up at that point) *)
Record emitted := mkEm { e_def : def; e_seen : list (option def) }.

Definition emit (s : scope) (d : def) : emitted := mkEm d (map (fun r => lookup r s) (d_refs d)).

(** one root statement: rejected when it refers to something not declared yet *)
Definition step (s : scope) (d : def) : option (scope * emitted) :=
  if forallb (declared s) (d_refs d) then Some (d :: s, emit s d) else None.

Fixpoint run_defs (s : scope) (ds : list def) : option (scope * list emitted) :=
  match ds with
  | [] => Some (s, [])
  | d :: ds' =>
    match step s d with
    | None => None
    | Some (s', e) =>
      match run_defs s' ds' with
      | None => None
      | Some (s'', es) => Some (s'', e :: es)
      end
    end
  end.

(** files: (name, is_fo, definitions) ; a .fo file yields gen_<name>, a .foi file yields nothing *)
Record file := mkFile { f_name : nat; f_is_fo : bool; f_defs : list def }.

Fixpoint run_files (s : scope) (fs : list file) : option (scope * list (nat * list emitted)) :=
  match fs with
  | [] => Some (s, [])
  | f :: fs' =>
    match run_defs s (f_defs f) with
    | None => None
    | Some (s', es) =>
      match run_files s' fs' with
      | None => None
      | Some (s'', outs) => Some (s'', if f_is_fo f then (f_name f, es) :: outs else outs)
      end
    end
  end.

(** ---- temporaries ---- *)
(** counter left after parsing a file: the parse-time count of its last root let (unchanged if none) *)
Definition counter_after_parse (c : nat) (ds : list def) : nat :=
  fold_left (fun c d => match d_kind d with KLet => d_ptemps d | KType => c end) ds c.

(** emission-time temporaries of each definition of a file, numbered from counter c *)
Fixpoint number_emit (c : nat) (ds : list def) : list (nat * list nat) * nat :=
  match ds with
  | [] => ([], c)
  | d :: ds' =>
    let mine := seq (S c) (d_etemps d) in
    let (rest, c') := number_emit (c + d_etemps d) ds' in
    ((d_name d, mine) :: rest, c')
  end.

Fixpoint number_files (c : nat) (fs : list file) : list (nat * list nat) :=
  match fs with
  | [] => []
  | f :: fs' =>
    let c1 := counter_after_parse c (f_defs f) in
    if f_is_fo f then
      let (ns, c2) := number_emit c1 (f_defs f) in ns ++ number_files c2 fs'
    else number_files c1 fs'
  end.

(** parse-time temporaries of a root let: always 1..p whatever came before *)
Definition number_parse (d : def) : list nat := seq 1 (d_ptemps d).
