(** C18 — proofs about the model of build_sample_md (SampleMd.v). *)
From Coq Require Import List Ascii String ZArith Bool Lia.
From FoVerif Require Import Pkg.Buf Pkg.Strings Pkg.Frt Pkg.StringsProofs Pkg.FrtProofs Driver.SampleMd.
Import ListNotations.

Ltac solve_np := unfold no_percent; cbn; intuition discriminate.

(** * the columns of a list line *)

Lemma cut_space : forall l,
  go_cut l (b " ") = match split_space l with
                     | (f, Some t) => Some (f, t)
                     | (_, None) => None
                     end.
Proof.
  induction l as [|c r IH]; [reflexivity|].
  cbn [go_cut split_space].
  assert (P : go_has_prefix (c :: r) (b " ") = Ascii.eqb c " ").
  { unfold go_has_prefix. cbn. rewrite andb_true_r. reflexivity. }
  rewrite P. destruct (Ascii.eqb c " ") eqn:E; [reflexivity|].
  rewrite IH. destruct (split_space r) as [f [t|]]; reflexivity.
Qed.

Lemma split_space_none : forall l, snd (split_space l) = None -> fst (split_space l) = l.
Proof.
  induction l as [|c r IH]; [reflexivity|]. cbn [split_space].
  destruct (Ascii.eqb c " "); [discriminate|].
  destruct (split_space r) as [f t]. cbn in *. intro H. rewrite IH by exact H. reflexivity.
Qed.

(** the part before the first space really is: no space in it, and the line is file ++ " " ++ title *)
Lemma split_space_spec : forall l f t, split_space l = (f, t) ->
  ~ In " "%char f /\ match t with Some t' => l = f ++ " "%char :: t' | None => l = f end.
Proof.
  induction l as [|c r IH]; intros f t H; cbn [split_space] in H.
  - inversion H; subst. split; [intros []|reflexivity].
  - destruct (Ascii.eqb c " ") eqn:E.
    + inversion H; subst. apply Ascii.eqb_eq in E. subst c. split; [intros []|reflexivity].
    + destruct (split_space r) as [f' t'] eqn:E2. inversion H; subst.
      destruct (IH f' t eq_refl) as [N S]. split.
      * intros [Hc|Hin]; [|contradiction]. subst c. rewrite Ascii.eqb_refl in E. discriminate.
      * destruct t; cbn; congruence.
Qed.

Lemma splitn2_space : forall l, l <> [] ->
  SplitN 2 (b " ") l = match split_space l with
                       | (f, Some t) => [f; t]
                       | (_, None) => [l]
                       end.
Proof.
  intros l H. unfold SplitN, go_split_n, go_gen_split.
  change ((2 =? 0)%Z) with false. change ((2 <? 0)%Z) with false. cbv iota.
  change (b " ") with [" "%char]. cbv iota. change (Z.to_nat 2) with 2.
  destruct l as [|c r]; [congruence|].
  replace (Nat.min 2 (S (List.length (c :: r)))) with 2 by (cbn [List.length]; lia).
  cbn [pred go_split_loop]. change [" "%char] with (b " "). rewrite cut_space.
  destruct (split_space (c :: r)) as [f [t|]]; reflexivity.
Qed.

Section Proofs.
  Variable fs : bytes -> option bytes.
  Variable path_join : bytes -> bytes -> bytes.

  Notation convOne := (convOne fs path_join).
  Notation render_readme := (render_readme fs path_join).
  Notation readable := (readable fs path_join).

  Definition file_content (dir line : bytes) : bytes :=
    match fs (path_join dir (line_file line)) with Some c => c | None => [] end.

  Definition section_of (dir line : bytes) : bytes :=
    section (line_title line) (line_file line) (file_content dir line).

  (** * one entry *)
  Theorem convOne_spec : forall dir line, line <> [] ->
    convOne dir line =
    match fs (path_join dir (line_file line)) with
    | None => Panic (b "Can't open file " ++ line_file line)
    | Some content => Ok (section (line_title line) (line_file line) content)
    end.
  Proof.
    intros dir line H. unfold SampleMd.convOne. rewrite splitn2_space by exact H.
    unfold line_file, line_title.
    assert (HL : forall cols foF ti,
               slice_head cols = Ok foF -> slice_last cols = Ok ti ->
               obind (slice_head cols) (fun foFname => obind (slice_last cols) (fun title =>
                 match Pipe (path_join dir foFname) fs with
                 | None => Panic (b "Can't open file " ++ foFname)
                 | Some content =>
                     obind (sprintf1_s (b "### %s" ++ [nl; nl]) title) (fun s1 =>
                     obind (sprintf1_s (b "generated go: [%s]") ((b "gen_" ++ Pipe foFname (TrimSuffix (b ".fo"))) ++ b ".go")) (fun s2 =>
                     obind (sprintf1_s (b "(./%s)") ((b "gen_" ++ Pipe foFname (TrimSuffix (b ".fo"))) ++ b ".go")) (fun s3 =>
                     Ok (bb_string (bb_write (bb_write (bb_write (bb_write (bb_write (bb_write (bb_write bb_new s1)
                          (b "```" ++ [nl])) content) ([nl] ++ b "```" ++ [nl; nl])) s2) s3) [nl; nl])))))
                 end)) =
               match fs (path_join dir foF) with
               | None => Panic (b "Can't open file " ++ foF)
               | Some content => Ok (section ti foF content)
               end).
    { intros cols foF ti Hh Hl. rewrite Hh, Hl. cbn [obind]. unfold Pipe.
      destruct (fs (path_join dir foF)) as [content|]; [|reflexivity].
      unfold sprintf1_s.
      change (b "### %s" ++ [nl; nl]) with (b "### " ++ b "%s" ++ [nl; nl]).
      rewrite sprintf1_string by solve_np.
      change (b "generated go: [%s]") with (b "generated go: [" ++ b "%s" ++ b "]").
      rewrite sprintf1_string by solve_np.
      change (b "(./%s)") with (b "(./" ++ b "%s" ++ b ")").
      rewrite sprintf1_string by solve_np.
      cbn [obind]. f_equal. unfold section, gen_name, bb_string, bb_write, bb_new.
      cbn [b list_ascii_of_string]. rewrite <- ?app_assoc. cbn [app]. rewrite <- ?app_assoc. cbn [app]. reflexivity. }
    destruct (split_space line) as [f [t|]] eqn:E; cbn [fst snd].
    - apply HL; reflexivity.
    - pose proof (split_space_none line) as N. rewrite E in N. cbn in N. rewrite N by reflexivity.
      apply HL; [reflexivity|]. destruct line; [congruence|reflexivity].
  Qed.

  (** * slice.Map of a function that may panic *)
  Lemma map_out_ok : forall (f : bytes -> outcome bytes) (g : bytes -> bytes) l,
    (forall x, In x l -> f x = Ok (g x)) -> map_out f l = Ok (map g l).
  Proof.
    induction l as [|x r IH]; intro H; [reflexivity|].
    cbn [map_out map]. rewrite (H x) by (left; reflexivity). cbn [obind].
    rewrite IH by (intros y Hy; apply H; right; exact Hy). reflexivity.
  Qed.

  Lemma map_out_first_panic : forall (f : bytes -> outcome bytes) (g : bytes -> bytes) pre x post m,
    (forall y, In y pre -> f y = Ok (g y)) -> f x = Panic m ->
    map_out f (pre ++ x :: post) = Panic m.
  Proof.
    induction pre as [|y pre IH]; intros x post m H Hx.
    - cbn. rewrite Hx. reflexivity.
    - cbn [app map_out]. rewrite (H y) by (left; reflexivity). cbn [obind].
      rewrite (IH x post m) by (try (intros z Hz; apply H; right; exact Hz); exact Hx). reflexivity.
  Qed.

  Lemma entries_nonempty : forall content line, In line (entries content) -> line <> [].
  Proof.
    intros content line H. unfold entries in H. apply filter_In in H. destruct H as [_ H].
    apply is_not_empty_spec. exact H.
  Qed.

  (** * the whole file *)

  Theorem readme_is_header_then_sections : forall dir content,
    (forall line, In line (entries content) -> readable dir line) ->
    render_readme dir content = Ok (header ++ join [nl] (map (section_of dir) (entries content))).
  Proof.
    intros dir content H. unfold SampleMd.render_readme. fold (entries content).
    rewrite (map_out_ok _ (section_of dir)).
    - cbn [obind]. rewrite concat_is_join. reflexivity.
    - intros line Hin. rewrite convOne_spec by (eapply entries_nonempty; eauto).
      unfold section_of, file_content. specialize (H line Hin). unfold SampleMd.readable in H.
      destruct (fs (path_join dir (line_file line))); [reflexivity|congruence].
  Qed.

  (** the first unreadable entry stops the tool with its name; nothing is rendered *)
  Theorem first_unreadable_panics : forall dir content pre line post,
    entries content = pre ++ line :: post ->
    (forall l, In l pre -> readable dir l) -> ~ readable dir line ->
    render_readme dir content = Panic (b "Can't open file " ++ line_file line).
  Proof.
    intros dir content pre line post E Hpre Hline. unfold SampleMd.render_readme. fold (entries content).
    assert (NE : forall l, In l (entries content) -> l <> []) by (intros; eapply entries_nonempty; eauto).
    rewrite E in *. rewrite (map_out_first_panic _ (section_of dir) pre line post (b "Can't open file " ++ line_file line)).
    - reflexivity.
    - intros y Hy. rewrite convOne_spec by (apply NE; apply in_or_app; left; exact Hy).
      unfold section_of, file_content. specialize (Hpre y Hy). unfold SampleMd.readable in Hpre.
      destruct (fs (path_join dir (line_file y))); [reflexivity|congruence].
    - rewrite convOne_spec by (apply NE; apply in_or_app; right; left; reflexivity).
      unfold SampleMd.readable in Hline.
      destruct (fs (path_join dir (line_file line))); [|reflexivity]. exfalso. apply Hline. discriminate.
  Qed.

  Lemma readable_dec : forall dir line, {readable dir line} + {~ readable dir line}.
  Proof.
    intros dir line. unfold SampleMd.readable.
    destruct (fs (path_join dir (line_file line))); [left; discriminate|right; intro H; apply H; reflexivity].
  Qed.

  Lemma first_unreadable : forall dir l,
    (forall x, In x l -> readable dir x) \/
    exists pre x post, l = pre ++ x :: post /\ (forall y, In y pre -> readable dir y) /\ ~ readable dir x.
  Proof.
    intros dir. induction l as [|a l IH].
    - left. intros x [].
    - destruct (readable_dec dir a) as [Ra|Ra].
      + destruct IH as [IH|[pre [x [post [E [Hp Hx]]]]]].
        * left. intros x [->|Hin]; auto.
        * right. exists (a :: pre), x, post. split; [cbn; congruence|]. split; [|exact Hx].
          intros y [->|Hin]; auto.
      + right. exists [], a, l. split; [reflexivity|]. split; [intros y []|exact Ra].
  Qed.

  Theorem unreadable_fails : forall dir content,
    (exists m, render_readme dir content = Panic m) <->
    (exists line, In line (entries content) /\ ~ readable dir line).
  Proof.
    intros dir content. split.
    - intros [m Hm]. destruct (first_unreadable dir (entries content)) as [All|[pre [x [post [E [Hp Hx]]]]]].
      + rewrite readme_is_header_then_sections in Hm by exact All. discriminate.
      + exists x. split; [rewrite E; apply in_or_app; right; left; reflexivity|exact Hx].
    - intros [line [Hin Hl]].
      destruct (first_unreadable dir (entries content)) as [All|[pre [x [post [E [Hp Hx]]]]]].
      + exfalso. apply Hl. apply All. exact Hin.
      + eexists. eapply first_unreadable_panics; eauto.
  Qed.

  (** * order: an earlier entry's section precedes a later entry's section *)
  Lemma join_around : forall (sep : bytes) l1 (x : bytes) r,
    join sep (l1 ++ x :: r) =
    (match l1 with [] => [] | _ => join sep l1 ++ sep end) ++ x ++
    (match r with [] => [] | _ => sep ++ join sep r end).
  Proof.
    intros sep. induction l1 as [|a l1 IH]; intros x r.
    - cbn [app]. destruct r; cbn [join]; [rewrite app_nil_r|]; reflexivity.
    - cbn [app]. specialize (IH x r).
      destruct l1 as [|a' l1'].
      + cbn [app join] in *. destruct r; cbn [join]; rewrite <- ?app_assoc, ?app_nil_r; reflexivity.
      + change (join sep (a :: (a' :: l1') ++ x :: r)) with (a ++ sep ++ join sep ((a' :: l1') ++ x :: r)).
        rewrite IH. change (join sep (a :: a' :: l1')) with (a ++ sep ++ join sep (a' :: l1')).
        rewrite <- !app_assoc. reflexivity.
  Qed.

  Theorem order_preserved : forall dir content l1 x l2 y l3,
    (forall line, In line (entries content) -> readable dir line) ->
    entries content = l1 ++ x :: l2 ++ y :: l3 ->
    exists pre mid post,
      render_readme dir content =
      Ok (header ++ pre ++ section_of dir x ++ mid ++ section_of dir y ++ post).
  Proof.
    intros dir content l1 x l2 y l3 H E.
    rewrite readme_is_header_then_sections by exact H. rewrite E.
    rewrite map_app. cbn [map]. rewrite map_app. cbn [map].
    rewrite join_around.
    set (rest := map (section_of dir) l2 ++ section_of dir y :: map (section_of dir) l3).
    assert (R : exists mid post, (match rest with [] => [] | _ => [nl] ++ join [nl] rest end)
                                 = mid ++ section_of dir y ++ post).
    { subst rest. destruct (map (section_of dir) l2 ++ section_of dir y :: map (section_of dir) l3) eqn:E2.
      - destruct (map (section_of dir) l2); discriminate.
      - rewrite <- E2. rewrite join_around. eexists. eexists. rewrite app_assoc. reflexivity. }
    destruct R as [mid [post R]]. rewrite R. eexists. exists mid, post. reflexivity.
  Qed.
End Proofs.

(** * histories: a run's README.md does not depend on what was there before *)
Section HistoryProofs.
  Variable path_join : bytes -> bytes -> bytes.

  Theorem run_overwrites : forall fs before dir content,
    (forall line, In line (entries content) -> readable fs path_join dir line) ->
    tool_run path_join fs before dir content =
    Some (header ++ join [nl] (map (section_of fs path_join dir) (entries content))).
  Proof.
    intros fs before dir content H. unfold tool_run.
    rewrite readme_is_header_then_sections by exact H. reflexivity.
  Qed.

  Theorem run_failing_keeps : forall fs before dir content line,
    In line (entries content) -> ~ readable fs path_join dir line ->
    tool_run path_join fs before dir content = before.
  Proof.
    intros fs before dir content line Hin Hl. unfold tool_run.
    destruct (proj2 (unreadable_fails fs path_join dir content)) as [m Hm]; [eauto|].
    rewrite Hm. reflexivity.
  Qed.

  Lemma tool_history_app : forall h1 h2 before dir,
    tool_history path_join before dir (h1 ++ h2) =
    tool_history path_join (tool_history path_join before dir h1) dir h2.
  Proof.
    induction h1 as [|[fs c] h1 IH]; intros h2 before dir; [reflexivity|]. cbn. apply IH.
  Qed.

  (** after any history, README.md is the rendering of the LAST run if all its files were
      readable, and otherwise what the history before that run left *)
  Theorem history_last_run : forall h fs content before dir,
    ((forall line, In line (entries content) -> readable fs path_join dir line) ->
     tool_history path_join before dir (h ++ [(fs, content)]) =
     Some (header ++ join [nl] (map (section_of fs path_join dir) (entries content)))) /\
    ((exists line, In line (entries content) /\ ~ readable fs path_join dir line) ->
     tool_history path_join before dir (h ++ [(fs, content)]) = tool_history path_join before dir h).
  Proof.
    intros h fs content before dir. rewrite tool_history_app. cbn [tool_history]. split.
    - intro H. apply run_overwrites. exact H.
    - intros [line [Hin Hl]]. eapply run_failing_keeps; eauto.
  Qed.
End HistoryProofs.
