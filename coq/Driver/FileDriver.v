(** C16 model, driver half: main / transpileFiles / transpileOne of fc/main.fo over a file system.

      transpileOne parser file =
        print "transpile: <file>"
        (src, ok) = sys.ReadFile file
        not ok  -> panic "Can't open file"          (outside the deferred handler: Go prints the panic, exit 2)
        defer OnParseError(file)                     (any panic below: "<file>: <msg>", exit 1)
        (ps2, stmts) = ParseAll (psSetNewSrc src parser) ; res = RootStmtsToGo stmts
        if HasSuffix ".fo" file: written = sys.WriteFile (Join (Dir file) ("gen_" + TrimSuffix ".fo" (Base file) + ".go")) res
                                 not written -> panic "Can't write file"
        ps2
      transpileFiles files = slice.Fold transpileOne (initParse "") files

    The whole translation of one file (parser, inference, emitter, and the global dictionaries it
    updates) is the abstract [translate : state -> bytes -> option (state * bytes)]; [None] is any
    diagnostic. The file system is a partial map from paths to contents with directories and a
    fault oracle [unwritable]; a failed write leaves the file system as it was (os.WriteFile is
    assumed not to fail half-way). Definitions only; proofs are in FileDriverProofs.v. *)
From Coq Require Import List Arith Bool String Ascii.
Import ListNotations.

Definition path := string.
Definition content := list nat.

Record fsys := mkFs {
  files : path -> option content;      (* regular files *)
  is_dir : path -> bool;               (* directories: neither readable nor writable as files *)
  unwritable : path -> bool            (* fault oracle: os.WriteFile fails (permissions, missing parent, ...) *)
}.

Definition read (fs : fsys) (p : path) : option content :=
  if is_dir fs p then None else files fs p.

Definition write (fs : fsys) (p : path) (c : content) : option fsys :=
  if is_dir fs p || unwritable fs p then None
  else Some {| files := fun q => if String.eqb q p then Some c else files fs q;
               is_dir := is_dir fs;
               unwritable := unwritable fs |}.

Inductive failure :=
| ReadFail            (* "Can't open file: …" *)
| TranslateFail       (* any diagnostic of the parser / inference / emitter *)
| WriteFail.          (* "Can't write file: …" *)

Section Driver.
  Variable state : Type.
  Variable translate : state -> content -> option (state * content).
  Variable is_fo : path -> bool.         (* strings.HasSuffix ".fo" file *)
  Variable dest : path -> path.          (* Join (Dir file) ("gen_" + base + ".go") *)

  Inductive run_result :=
  | Done (st : state) (fs : fsys)                                   (* exit 0 *)
  | Failed (k : nat) (why : failure) (st : state) (fs : fsys).      (* exit non-zero at argument k *)

  (** transpileOne *)
  Definition step (st : state) (fs : fsys) (f : path) : (state * fsys) + failure :=
    match read fs f with
    | None => inr ReadFail
    | Some src =>
      match translate st src with
      | None => inr TranslateFail
      | Some (st', out) =>
        if is_fo f then
          match write fs (dest f) out with
          | None => inr WriteFail
          | Some fs' => inl (st', fs')
          end
        else inl (st', fs)                  (* .foi (or anything else): nothing is written *)
      end
    end.

  (** transpileOne before commit 937260d: the result of sys.WriteFile was dropped *)
  Definition step_old (st : state) (fs : fsys) (f : path) : (state * fsys) + failure :=
    match read fs f with
    | None => inr ReadFail
    | Some src =>
      match translate st src with
      | None => inr TranslateFail
      | Some (st', out) =>
        if is_fo f then
          match write fs (dest f) out with
          | None => inl (st', fs)
          | Some fs' => inl (st', fs')
          end
        else inl (st', fs)
      end
    end.

  Section Fold.
    Variable one : state -> fsys -> path -> (state * fsys) + failure.

    (** slice.Fold transpileOne: left to right, one state, the first panic ends the process *)
    Fixpoint run_with (args : list path) (st : state) (fs : fsys) : run_result :=
      match args with
      | [] => Done st fs
      | f :: rest =>
        match one st fs f with
        | inr why => Failed 0 why st fs
        | inl (st', fs') =>
          match run_with rest st' fs' with
          | Done a b => Done a b
          | Failed k why a b => Failed (S k) why a b
          end
        end
      end.
  End Fold.

  Definition transpile_files := run_with step.
  Definition transpile_files_old := run_with step_old.

  (** process exit status: 0 | 1 (diagnostic printed by OnParseError) | 2 (Go panic report) *)
  Definition exit_code (r : run_result) : nat :=
    match r with
    | Done _ _ => 0
    | Failed _ ReadFail _ _ => 2
    | Failed _ _ _ _ => 1
    end.

  (** main: no argument prints the usage and exits 0 *)
  Definition fc_main (args : list path) (st0 : state) (fs : fsys) : run_result :=
    match args with
    | [] => Done st0 fs
    | _ => transpile_files args st0 fs
    end.
End Driver.

Arguments Done {state}.
Arguments Failed {state}.

(* ------------------------------------------------------------------ concrete paths *)

(** The path arithmetic of transpileOne for paths in clean form (no "//", no "." or ".."
    components, no trailing slash) with "/" as separator:
    Dir = everything before the last slash, Base = everything after it. *)
Fixpoint split_last_slash (s : string) : option (string * string) :=
  match s with
  | EmptyString => None
  | String c s' =>
    match split_last_slash s' with
    | Some (d, b) => Some (String c d, b)
    | None => if Ascii.eqb c "/"%char then Some (EmptyString, s') else None
    end
  end.

Fixpoint has_suffix (suf s : string) : bool :=
  if String.eqb s suf then true
  else match s with
       | EmptyString => false
       | String _ s' => has_suffix suf s'
       end.

Fixpoint drop_last (n : nat) (s : string) : string :=
  if String.length s <=? n then EmptyString
  else match s with
       | EmptyString => EmptyString
       | String c s' => String c (drop_last n s')
       end.

Definition fo_is_fo (p : path) : bool := has_suffix ".fo" p.

Definition fo_dest (p : path) : path :=
  let gen b := ("gen_" ++ drop_last 3 b ++ ".go")%string in
  match split_last_slash p with
  | None => gen p                                        (* Dir = ".", Join drops it *)
  | Some (d, b) =>
    if String.eqb d EmptyString then ("/" ++ gen b)%string    (* file in the root directory *)
    else (d ++ "/" ++ gen b)%string
  end.

(* ------------------------------------------------------------------ the instance run by the oracle *)

(** Correspondence with the real fc process (harness/c16_driver.go, oracle request [drive]):
    the file system is given by three lists of names (regular files, directories, unwritable
    destinations); every regular file holds the marker content [7]. The translation is abstract:
    the state is the number of files translated so far (= the index of the argument, since the
    first failure ends the run); it fails exactly at the indices the harness lists in [bad]
    (obtained from the in-process compiler), and the output of the file translated at index [st]
    is [100 + st], so that the final file system tells which argument wrote a destination last. *)
Fixpoint name_mem (p : path) (l : list path) : bool :=
  match l with
  | [] => false
  | x :: r => String.eqb x p || name_mem p r
  end.

Definition marker : content := [7].

Definition fs_of_lists (regular dirs unw : list path) : fsys :=
  {| files := fun p => if name_mem p regular then Some marker else None;
     is_dir := fun p => name_mem p dirs;
     unwritable := fun p => name_mem p unw |}.

Definition drive_translate (bad : list nat) (st : nat) (src : content) : option (nat * content) :=
  if existsb (Nat.eqb st) bad then None else Some (S st, [100 + st]).

Definition drive (bad : list nat) (args : list path) (regular dirs unw : list path) : run_result nat :=
  fc_main nat (drive_translate bad) fo_is_fo fo_dest args 0 (fs_of_lists regular dirs unw).

(** final content of a path: [None] absent, [Some [7]] the marker, [Some [100+i]] written for argument i *)
Definition final_content (r : run_result nat) (p : path) : option content :=
  match r with
  | Done _ fs | Failed _ _ _ fs => files fs p
  end.
