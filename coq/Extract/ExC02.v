From Coq Require Import ExtrOcamlBasic ExtrOcamlString.
From FoVerif Require Import Core.Unify Core.Infer Core.Resolver Core.ResolverBound.
Extraction "x_c02.ml" infer_fun infer_ambiguous infer_open_named sig_to_go infer_fun_resolver solve resolve_type unify app_seq bsolve_rels bsolve bound_fuel.
