From Coq Require Import ExtrOcamlBasic ExtrOcamlString.
From FoVerif Require Import Front.Exhaust.
Extraction "x_c09.ml" check enum_k dispatch.
