From Coq Require Import ExtrOcamlBasic ExtrOcamlString.
From FoVerif Require Import Front.Layout.
Extraction "x_c06.ml" tkz_cols parse_blocks fuel_for map_cols r_prog er_prog.
