From Coq Require Import ExtrOcamlBasic ExtrOcamlString.
From FoVerif Require Import Pkg.Buf Pkg.Strings Pkg.Dict Pkg.Frt.
Extraction "x_c14.ml"
  HasPrefix HasSuffix TrimSuffix Split SplitN Concat AppendHead AppendTail EncloseWith
  Length IsEmpty IsNotEmpty
  run_sz brun
  toS toS_old SInterP SInterP_old Sprintf1 Sprintf2 dec z_of_dec
  ifelse_demo ifelseunit_demo ifonly_demo Pipe NewTuple2 NewTuple3 Fst Snd Destr2 Destr3.
