From Coq Require Import ExtrOcamlBasic ExtrOcamlString.
From FoVerif Require Import Front.BinOp.
Extraction "x_c08.ml" parse_tokens parse_chain rank all_ops.
