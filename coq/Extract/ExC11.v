From Coq Require Import ExtrOcamlBasic ExtrOcamlString.
From FoVerif Require Import Front.StrLit.
Extraction "x_c11.ml" scan emit emit_text run pipeline denote wf close.
