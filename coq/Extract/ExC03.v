From Coq Require Import ExtrOcamlBasic ExtrOcamlString.
From FoVerif Require Import Core.Decls.
Extraction "x_c03.ml" emit_record emit_union emit_root_func emit_root_var emit_ext_call mkRecDef mkUnion mkFun.
