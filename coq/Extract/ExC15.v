From Coq Require Import ExtrOcamlBasic ExtrOcamlString.
From FoVerif Require Import Front.TypeGrammar.
Extraction "x_c15.ml" parse_type render print_type dprint erase.
