From Coq Require Import ExtrOcamlBasic ExtrOcamlString.
From FoVerif Require Import Front.Term Driver.FileDriver Core.Resolve.
Extraction "x_c16.ml" scan_token_at tokens parse_sinterp reinterpret_escape keyword_names
  drive final_content fo_dest fo_is_fo resolve.
