From Coq Require Import ExtrOcamlBasic ExtrOcamlString.
From FoVerif Require Import Driver.SampleMd.
Extraction "x_c18.ml" render_files history_files.
