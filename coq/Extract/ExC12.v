(* one extraction serves C12 and C13 *)
From Coq Require Import ExtrOcamlBasic ExtrOcamlString.
From FoVerif Require Import Pkg.SliceHeap Pkg.SliceFamily.
Extraction "x_c12.ml"
  trace run observe step init grow_double grow_exact isort_by sorted_permb contents
  arg_slice outcome literal make_filled
  Length Len New Item IsEmpty IsNotEmpty Last Head Tail Take PopLast Skip Map Mapi Iter Filter Sort
  SortBy Zip Forall Forany PushLast PushHead Collect Concat Append Distinct TryFind Fold
  cb_fresh cb_pick
  f_addk f_mulk f_neg f_const f_modk f_fst f_snd f_swap f_sum f_dup
  fi_addidx fi_muladd fi_idx fi_pair
  p_gtk p_ltk p_eqk p_modeq p_true p_false p_fstgt
  j_id j_neg j_modk j_abs j_fst j_snd
  fo_sum fo_sub fo_horner fo_count fo_last
  g_rep g_range g_empty g_selfneg.
