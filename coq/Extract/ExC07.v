From Coq Require Import ExtrOcamlBasic ExtrOcamlString.
From FoVerif Require Import Driver.Hist.
Extraction "x_c07.ml" run_files number_files mkDef mkFile.
