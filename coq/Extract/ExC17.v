From Coq Require Import ExtrOcamlBasic ExtrOcamlString ZArith.
From FoVerif Require Import Core.Common Core.Lib Core.MiniFo Core.MiniGo Core.Compile Core.CompileTiny.
Extraction "x_c17.ml" compile_tiny compile_prog run_go run_src tiny_b.
