From Coq Require Import ExtrOcamlBasic ExtrOcamlString.
From FoVerif Require Import Core.Equality Pkg.Frt.
Extraction "x_c10.ml" op_equal op_not_equal op_equal_old struct_eq z_of_dec.
