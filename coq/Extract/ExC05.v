From Coq Require Import ExtrOcamlBasic ExtrOcamlString.
From FoVerif Require Import Driver.Order.
Extraction "x_c05.ml" rec_lookup isort rec_lookup_old eqs_union get mkRec.
