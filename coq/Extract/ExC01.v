From Coq Require Import ExtrOcamlBasic ExtrOcamlString ZArith.
From FoVerif Require Import Core.Common Core.Lib Core.MiniFo Core.MiniGo Core.Compile Core.WfCheck.
Extraction "x_c01.ml" run_src run_go compile_prog wfp_b libfn_of_name libfn_name Z.add Z.mul Z.opp z_dec.
