#!/bin/sh
# regenerate _CoqProject from the files present (gen/ is compiled separately per run)
cd "$(dirname "$0")"
{ echo "-Q . FoVerif"; find Base Pkg Front Core Driver Props Extract -name '*.v' | sort; } > _CoqProject
