(** C13 — slice library functions compute their F#-List-style specification.
    Statements only; each is closed by [exact] of a lemma of Pkg/SliceHeapProofs.v.

    For the operational model of pkg/slice/slice.go (Pkg/SliceHeap.v), every growth policy of
    append, every heap, every valid argument slice (any array, offset, length, capacity — shared or
    not), every callback: the call modifies no existing array ([heap_extends]) and its outcome
    [refines] the List-level outcome: [Ok l] = returns a valid slice whose contents are l,
    [Panic p] = panics with p. The panic domain is therefore exact. *)
From Coq Require Import List ZArith Bool Permutation.
From FoVerif Require Import Pkg.SliceHeap Pkg.SliceHeapBase Pkg.SliceHeapProofs.
Import ListNotations.

Section C13.
Variable grow : nat -> nat -> nat.
Hypothesis grow_ok : forall c n, n <= grow c n.

Theorem C13_Length : forall h s, valid h s -> Length h s = Z.of_nat (length (contents h s)).
Proof. exact Length_spec. Qed.
Theorem C13_Len : forall h s, valid h s -> Len h s = Z.of_nat (length (contents h s)).
Proof. exact Len_spec. Qed.
Theorem C13_IsEmpty : forall h s, valid h s ->
  IsEmpty h s = match contents h s with [] => true | _ => false end.
Proof. exact IsEmpty_spec. Qed.
Theorem C13_IsNotEmpty : forall h s, valid h s ->
  IsNotEmpty h s = match contents h s with [] => false | _ => true end.
Proof. exact IsNotEmpty_spec. Qed.
Theorem C13_New : forall h h' r, New h = (h', r) -> heap_extends h h' /\ refines h' r (Ok []).
Proof. exact New_spec. Qed.
Theorem C13_Item : forall h s, valid h s -> forall index,
  Item h index s =
  if (index <? 0)%Z || (Z.of_nat (length (contents h s)) <=? index)%Z then Panic PIndex
  else Ok (nth (Z.to_nat index) (contents h s) vdef).
Proof. exact Item_spec. Qed.
Theorem C13_Head : forall h s, valid h s ->
  Head h s = match contents h s with [] => Panic PHeadEmpty | x :: _ => Ok x end.
Proof. exact Head_spec. Qed.
Theorem C13_Last : forall h s, valid h s ->
  Last h s = match contents h s with [] => Panic PIndex | _ => Ok (last (contents h s) vdef) end.
Proof. exact Last_spec. Qed.
Theorem C13_Tail : forall h s h' r, valid h s -> Tail h s = (h', r) ->
  h' = h /\ refines h' r (match contents h s with [] => Panic PTailEmpty | _ :: t => Ok t end).
Proof. exact Tail_spec. Qed.
Theorem C13_PopLast : forall h s h' r, valid h s -> PopLast h s = (h', r) ->
  h' = h /\ refines h' r (match contents h s with [] => Panic PBounds | _ => Ok (removelast (contents h s)) end).
Proof. exact PopLast_spec. Qed.
(** Take n = firstn n for n <= len (nothing for n <= 0), panics beyond *)
Theorem C13_Take : forall h num s h' r, valid h s -> Take grow h num s = (h', r) ->
  heap_extends h h' /\
  refines h' r (if (num <=? Z.of_nat (length (contents h s)))%Z
                then Ok (firstn (Z.to_nat num) (contents h s)) else Panic PIndex).
Proof. exact (Take_spec grow grow_ok). Qed.
(** Skip n = skipn n for 0 <= n; empty for n >= len; a negative count panics *)
Theorem C13_Skip : forall h count s h' r, valid h s -> Skip grow h count s = (h', r) ->
  heap_extends h h' /\
  refines h' r (if (Z.of_nat (length (contents h s)) <=? count)%Z then Ok []
                else if (count <? 0)%Z then Panic PIndex
                else Ok (skipn (Z.to_nat count) (contents h s))).
Proof. exact (Skip_spec grow grow_ok). Qed.
Theorem C13_Map : forall f h s h' r, valid h s -> Map grow f h s = (h', r) ->
  heap_extends h h' /\ refines h' r (Ok (map f (contents h s))).
Proof. exact (Map_spec grow grow_ok). Qed.
Theorem C13_Mapi : forall f h s h' r, valid h s -> Mapi grow f h s = (h', r) ->
  heap_extends h h' /\ refines h' r (Ok (mapi_from f 0 (contents h s))).
Proof. exact (Mapi_spec grow grow_ok). Qed.
Theorem C13_Mapi_pointwise : forall f i l k d, k < length l ->
  nth k (mapi_from f i l) d = f (Z.of_nat (i + k)) (nth k l vdef).
Proof. exact mapi_from_nth. Qed.
Theorem C13_Iter_calls_action_on_each_element_in_order : forall h s, valid h s -> Iter h s = contents h s.
Proof. exact Iter_spec. Qed.
Theorem C13_Filter : forall p h s h' r, valid h s -> Filter grow p h s = (h', r) ->
  heap_extends h h' /\ refines h' r (Ok (filter p (contents h s))).
Proof. exact (Filter_spec grow grow_ok). Qed.
Theorem C13_Zip : forall h s1 s2 h' r, valid h s1 -> valid h s2 -> Zip grow h s1 s2 = (h', r) ->
  heap_extends h h' /\
  refines h' r (if negb (length (contents h s1) =? length (contents h s2)) then Panic PZipLen
                else Ok (map (fun ab => VP (fst ab) (snd ab)) (combine (contents h s1) (contents h s2)))).
Proof. exact (Zip_spec grow grow_ok). Qed.
Theorem C13_Forall : forall h s, valid h s -> forall p, Forall p h s = forallb p (contents h s).
Proof. exact Forall_spec. Qed.
Theorem C13_Forany : forall h s, valid h s -> forall p, Forany p h s = existsb p (contents h s).
Proof. exact Forany_spec. Qed.
Theorem C13_PushLast : forall h x s h' r, valid h s -> PushLast grow h x s = (h', r) ->
  heap_extends h h' /\ refines h' r (Ok (contents h s ++ [x])).
Proof. exact (PushLast_spec grow grow_ok). Qed.
Theorem C13_PushHead : forall h x s h' r, valid h s -> PushHead grow h x s = (h', r) ->
  heap_extends h h' /\ refines h' r (Ok (x :: contents h s)).
Proof. exact (PushHead_spec grow grow_ok). Qed.
(** for every callback that modifies nothing existing and returns a valid slice with contents [fs e] *)
Theorem C13_Collect : forall f fs h s h' r, valid h s -> cb_ok (length h) h f fs ->
  Collect grow f h s = (h', r) ->
  heap_extends h h' /\ refines h' r (Ok (flat_map fs (contents h s))).
Proof. exact (Collect_spec grow grow_ok). Qed.
Theorem C13_Concat : forall h ss h' r, List.Forall (valid h) ss -> Concat grow h ss = (h', r) ->
  heap_extends h h' /\ refines h' r (Ok (concat (map (contents h) ss))).
Proof. exact (Concat_spec grow grow_ok). Qed.
Theorem C13_Append : forall h s1 s2 h' r, valid h s1 -> valid h s2 -> Append grow h s1 s2 = (h', r) ->
  heap_extends h h' /\ refines h' r (Ok (contents h s1 ++ contents h s2)).
Proof. exact (Append_spec grow grow_ok). Qed.
(** Distinct = first occurrences in order: [dedup []], characterised by the three facts below *)
Theorem C13_Distinct : forall h s h' r, valid h s -> Distinct grow h s = (h', r) ->
  heap_extends h h' /\ refines h' r (Ok (dedup [] (contents h s))).
Proof. exact (Distinct_spec grow grow_ok). Qed.
Theorem C13_Distinct_keeps_first_occurrences : forall l x,
  dedup [] (l ++ [x]) = if existsb (val_eqb x) l then dedup [] l else dedup [] l ++ [x].
Proof. exact dedup_snoc. Qed.
Theorem C13_Distinct_no_duplicates : forall seen l, NoDup (dedup seen l).
Proof. exact dedup_nodup. Qed.
Theorem C13_Distinct_same_elements : forall seen l x, In x (dedup seen l) <-> In x l /\ ~ In x seen.
Proof. exact dedup_in. Qed.
Theorem C13_TryFind : forall h s, valid h s -> forall p,
  TryFind p h s = match find p (contents h s) with Some e => (e, true) | None => (vdef, false) end.
Proof. exact TryFind_spec. Qed.
Theorem C13_Fold : forall h s, valid h s -> forall f ini, Fold f ini h s = fold_left f (contents h s) ini.
Proof. exact Fold_spec. Qed.

(** Sort / SortBy: for every in-place sorting permutation slices.SortFunc may pick *)
Variable sorter : (val -> Z) -> list val -> list val.
Hypothesis sorter_perm : forall key l, Permutation l (sorter key l).
Hypothesis sorter_sorted : forall key l, sorted_by key (sorter key l).
Theorem C13_SortBy : forall proj h s h' r, valid h s -> SortBy grow sorter proj h s = (h', r) ->
  heap_extends h h' /\
  exists res, r = Ok res /\ valid h' res /\
              sorted_by proj (contents h' res) /\ Permutation (contents h s) (contents h' res).
Proof. exact (SortBy_sorted_perm grow grow_ok sorter sorter_perm sorter_sorted). Qed.
Theorem C13_Sort : forall h s h' r, valid h s -> Sort grow sorter h s = (h', r) ->
  heap_extends h h' /\
  exists res, r = Ok res /\ valid h' res /\
              sorted_by vkey (contents h' res) /\ Permutation (contents h s) (contents h' res).
Proof. exact (Sort_sorted_perm grow grow_ok sorter sorter_perm sorter_sorted). Qed.
Theorem C13_Sort_result_unique_on_ints : forall h s h' r zs, valid h s -> contents h s = map VI zs ->
  Sort grow sorter h s = (h', r) ->
  exists res, r = Ok res /\ contents h' res = isort_by vkey (map VI zs).
Proof. exact (Sort_ints_unique grow grow_ok sorter sorter_perm sorter_sorted). Qed.
End C13.

Print Assumptions C13_Length. Print Assumptions C13_Len. Print Assumptions C13_IsEmpty.
Print Assumptions C13_IsNotEmpty. Print Assumptions C13_New. Print Assumptions C13_Item.
Print Assumptions C13_Head. Print Assumptions C13_Last. Print Assumptions C13_Tail.
Print Assumptions C13_PopLast. Print Assumptions C13_Take. Print Assumptions C13_Skip.
Print Assumptions C13_Map. Print Assumptions C13_Mapi. Print Assumptions C13_Mapi_pointwise.
Print Assumptions C13_Iter_calls_action_on_each_element_in_order. Print Assumptions C13_Filter.
Print Assumptions C13_Zip. Print Assumptions C13_Forall. Print Assumptions C13_Forany.
Print Assumptions C13_PushLast. Print Assumptions C13_PushHead. Print Assumptions C13_Collect.
Print Assumptions C13_Concat. Print Assumptions C13_Append. Print Assumptions C13_Distinct.
Print Assumptions C13_Distinct_keeps_first_occurrences. Print Assumptions C13_Distinct_no_duplicates.
Print Assumptions C13_Distinct_same_elements. Print Assumptions C13_TryFind. Print Assumptions C13_Fold.
Print Assumptions C13_SortBy. Print Assumptions C13_Sort. Print Assumptions C13_Sort_result_unique_on_ints.

(** the oracle's sorter and checker *)
Theorem C13_oracle_sorter_sorted : forall key l, sorted_by key (isort_by key l).
Proof. exact isort_by_sorted. Qed.
Theorem C13_oracle_sorter_perm : forall key l, Permutation l (isort_by key l).
Proof. exact isort_by_perm. Qed.
Theorem C13_oracle_check_sound_complete : forall key inp out,
  sorted_permb key inp out = true <-> sorted_by key out /\ Permutation inp out.
Proof. exact sorted_permb_ok. Qed.
Print Assumptions C13_oracle_sorter_sorted. Print Assumptions C13_oracle_sorter_perm. Print Assumptions C13_oracle_check_sound_complete.

(** non-vacuity: calls on a slice in the middle of a shared array with spare capacity *)
Definition ex_heap : heap := [[VI 77; VI 3; VI 1; VI 3; VI 2; VI 88]].
Definition ex_slice : slice := mk (Some 0) 1 4 5.
Example C13_example_valid : valid ex_heap ex_slice.
Proof. unfold valid; cbn. repeat split; auto with arith. Qed.
Example C13_example_take :
  let r := Take grow_double ex_heap 2 ex_slice in
  match snd r with Ok res => contents (fst r) res = [VI 3; VI 1] | _ => False end.
Proof. vm_compute. reflexivity. Qed.
Example C13_example_take_panics : snd (Take grow_double ex_heap 5 ex_slice) = Panic PIndex.
Proof. vm_compute. reflexivity. Qed.
Example C13_example_distinct :
  let r := Distinct grow_double ex_heap ex_slice in
  match snd r with Ok res => contents (fst r) res = [VI 3; VI 1; VI 2] | _ => False end.
Proof. vm_compute. reflexivity. Qed.
Example C13_example_sort :
  let r := Sort grow_double isort_by ex_heap ex_slice in
  match snd r with Ok res => contents (fst r) res = [VI 1; VI 2; VI 3; VI 3] | _ => False end
  /\ contents (fst r) ex_slice = [VI 3; VI 1; VI 3; VI 2].
Proof. vm_compute. split; reflexivity. Qed.
