(** C07 — a definition's translation depends only on itself and what it references.
    Statements only, about the root-statement state machine Driver/Hist.v (definitions are abstract:
    name, kind, references, own text, temporaries consumed at parse / emission time). *)
From Coq Require Import List Arith.
From FoVerif Require Import Driver.Hist Driver.HistProofs.
Import ListNotations.

Theorem C07_frame : forall s1 s2 d, agree_on (d_refs d) s1 s2 -> emit s1 d = emit s2 d.
Proof. exact frame. Qed.
Print Assumptions C07_frame.

(** any two accepted histories (insert / delete / reorder unrelated definitions; a cut into files does
    not change the sequence, see C07_files_are_one_history) emit a common definition identically *)
Theorem C07_history_independence :
  forall h1 h2 s1 s2 es1 es2 k1 k2 d,
  run_defs [] h1 = Some (s1, es1) -> run_defs [] h2 = Some (s2, es2) ->
  consistent h1 h2 ->
  nth_error h1 k1 = Some d -> nth_error h2 k2 = Some d ->
  nth_error es1 k1 = nth_error es2 k2.
Proof. exact history_independence. Qed.
Print Assumptions C07_history_independence.

Theorem C07_files_are_one_history :
  forall fs s,
  match run_files s fs, run_defs s (concat (map f_defs fs)) with
  | Some (s1, _), Some (s2, _) => s1 = s2
  | None, None => True
  | _, _ => False
  end.
Proof. exact files_are_one_history. Qed.
Print Assumptions C07_files_are_one_history.

Theorem C07_files_written_exactly :
  forall fs s s' outs, run_files s fs = Some (s', outs) ->
  map fst outs = map f_name (filter f_is_fo fs).
Proof. exact files_written_exactly. Qed.
Print Assumptions C07_files_written_exactly.

Theorem C07_later_files_see_earlier :
  forall fs s s' outs, run_files s fs = Some (s', outs) ->
  forall pre f post, fs = pre ++ f :: post -> f_is_fo f = true ->
  exists s0 s1 es, run_defs s (concat (map f_defs pre)) = Some (s0, es) /\
                   exists es_f, run_defs s0 (f_defs f) = Some (s1, es_f) /\ In (f_name f, es_f) outs.
Proof. exact file_content. Qed.
Print Assumptions C07_later_files_see_earlier.

(** temporaries: two histories differ only by a shift of the emission-time numbers *)
Theorem C07_emit_temps_are_a_shift :
  forall ds c1 c2 k d, nth_error ds k = Some d ->
  exists base, nth_error (fst (number_emit c1 ds)) k = Some (d_name d, seq (S (c1 + base)) (d_etemps d)) /\
               nth_error (fst (number_emit c2 ds)) k = Some (d_name d, seq (S (c2 + base)) (d_etemps d)).
Proof. exact emit_temps_are_a_shift. Qed.
Print Assumptions C07_emit_temps_are_a_shift.

(** non-vacuity: a concrete accepted history, the same definitions reordered and cut into two files *)
Definition ex_r := mkDef 1 KType [] 10 0 0.
Definition ex_u := mkDef 2 KType [] 11 0 0.
Definition ex_f := mkDef 3 KLet [1] 12 1 0.
Definition ex_g := mkDef 4 KLet [2; 1] 13 2 1.
Example C07_example_accepts :
  (exists r, run_defs [] [ex_r; ex_u; ex_f; ex_g] = Some r) /\
  (exists r, run_files [] [mkFile 7 true [ex_u; ex_r]; mkFile 8 true [ex_g; ex_f]] = Some r) /\
  run_defs [] [ex_f; ex_r] = None.
Proof. vm_compute. repeat split; eexists; reflexivity. Qed.
Example C07_example_numbers :
  number_files 0 [mkFile 7 true [ex_r; ex_g; ex_f]] = [(1, []); (4, [2]); (3, [])].
Proof. vm_compute. reflexivity. Qed.
