(** C11 — string, raw-string and interpolated literals denote exactly their text.
    Statements only; each is closed by [exact] of a lemma of Front/StrLitProofs.v.

    [pipeline f e src] = the value of the Go expression fc emits for the literal of form [f]
    ("..." Str, `...` Raw, $"..." IStr, $`...` IRaw) whose body starts at [src], through
    tokenizer -> ParseSInterP/emission -> Go unquoting -> frt.SInterP/toS -> fmt.Sprintf, paired
    with the source left after the literal.  [denote f e body] = the property's meaning of the body
    (None outside the property's grammar, see [ok_char]/[ok_piece] for the explicit exclusions). *)
From Coq Require Import List String Ascii ZArith Bool.
From FoVerif Require Import Front.StrLit Front.StrLitProofs.
Import ListNotations.
Local Open Scope char_scope.

(** The full statement: for every form, environment, body of ANY length over ALL bytes that is in the
    grammar, and whatever follows the literal in the source. *)
Theorem C11_literal_roundtrip :
  forall f e body rest v,
    denote f e body = Some v ->
    pipeline f e (body ++ close f :: rest) = (Ok v, rest).
Proof. exact literal_roundtrip. Qed.
Print Assumptions C11_literal_roundtrip.

(** The same, grammar-directed: for every list of admissible pieces (ordinary characters, the four
    escapes, \{ \}, holes naming bound variables, the byte order mark as one piece: [nosplit] says the
    three bytes EF BB BF are not written as three separate ordinary characters). *)
Theorem C11_literal_roundtrip_pieces :
  forall f e ps rest,
    forallb (ok_piece f e) ps = true -> nosplit ps = true ->
    pipeline f e (spell ps ++ close f :: rest) = (Ok (meaning e ps), rest).
Proof. exact literal_roundtrip_pieces. Qed.
Print Assumptions C11_literal_roundtrip_pieces.

(** [denote] is defined exactly on the spellings of admissible pieces, with the pieces' meaning
    (the byte-level grammar and the piece-level grammar coincide). *)
Theorem C11_denote_spell :
  forall f e ps, forallb (ok_piece f e) ps = true -> nosplit ps = true ->
    denote f e (spell ps) = Some (meaning e ps).
Proof. exact denote_spell. Qed.
Print Assumptions C11_denote_spell.

Theorem C11_denote_only_spellings :
  forall f body ps, lex f body None = Some ps -> spell ps = body.
Proof. exact lex_sound. Qed.
Print Assumptions C11_denote_only_spellings.

Theorem C11_wf_iff_denotes :
  forall f e body, wf f e body = true <-> exists v, denote f e body = Some v.
Proof. exact wf_denotes. Qed.
Print Assumptions C11_wf_iff_denotes.

(** A raw newline inside "..." / $"..." is an ordinary character (scanStringLiteralToken re-escapes it
    since its repair), so it is covered by C11_literal_roundtrip; for instance: *)
Theorem C11_newline_in_quoted_preserved :
  forall f rest, f = Str \/ f = IStr ->
    pipeline f [] (["a"; LF; "b"] ++ close f :: rest) = (Ok ["a"; LF; "b"], rest).
Proof. exact newline_in_quoted_preserved. Qed.
Print Assumptions C11_newline_in_quoted_preserved.

(** A byte order mark U+FEFF inside a literal of any of the four forms, between any ordinary characters,
    is preserved (both scanners write it as an escape since their repair). *)
Theorem C11_bom_in_literal_preserved :
  forall f x y rest,
    forallb (fun c => ok_char f c && negb (Ascii.eqb c EF)) x = true ->
    forallb (fun c => ok_char f c && negb (Ascii.eqb c EF)) y = true ->
    pipeline f [] (x ++ BOM ++ y ++ close f :: rest) = (Ok (x ++ BOM ++ y), rest).
Proof. exact bom_in_literal_preserved. Qed.
Print Assumptions C11_bom_in_literal_preserved.

(** Documentation of the repaired defect: with the tokenizer as it was before ([scan_string_old] inside
    [pipeline_old]) the newline was kept verbatim and the emitted Go did not compile. *)
Theorem C11_newline_in_quoted_old_refuted :
  forall f rest, f = Str \/ f = IStr ->
    pipeline_old f [] (["a"; LF; "b"] ++ close f :: rest) = (CompileError, rest).
Proof. exact newline_in_quoted_old_refuted. Qed.
Print Assumptions C11_newline_in_quoted_old_refuted.

Theorem C11_newline_in_string_old_never_compiles :
  forall x y rest,
    forallb (fun c => ok_char Str c && negb (Ascii.eqb c LF)) x = true ->
    scan_string_old (y ++ DQ :: rest) = Some (y, rest) ->
    pipeline_old Str [] (x ++ LF :: y ++ DQ :: rest) = (CompileError, rest).
Proof. exact newline_in_string_old_never_compiles. Qed.
Print Assumptions C11_newline_in_string_old_never_compiles.

(** non-vacuity: concrete literals of each form meeting the hypotheses *)
Definition ex_env : env := [(b "a", VInt (-42)); (b "s", VStr (b "x%y")); (b "xs", VOther (b "[1 2]"))].

Example C11_example_str :
  denote Str ex_env (b "a\tb\\c\""d % {a} é") = Some (b "a" ++ [TAB] ++ b "b\c""d % {a} é")
  /\ pipeline Str ex_env (b "a\tb\\c\""d % {a} é"" rest") = (Ok (b "a" ++ [TAB] ++ b "b\c""d % {a} é"), b " rest").
Proof. vm_compute. split; reflexivity. Qed.

Example C11_example_raw :
  pipeline Raw ex_env (b "raw ""q"" \ back" ++ [LF] ++ b "line2 %d {a}` rest")
  = (Ok (b "raw ""q"" \ back" ++ [LF] ++ b "line2 %d {a}"), b " rest").
Proof. vm_compute. reflexivity. Qed.

Example C11_example_istr :
  denote IStr ex_env (b "v={a} s={s} \{a\} 100% } \"" \n{xs}")
  = Some (b "v=-42 s=x%y {a} 100% } "" " ++ [LF] ++ b "[1 2]")
  /\ pipeline IStr ex_env (b "v={a} s={s} \{a\} 100% } \"" \n{xs}""")
     = (Ok (b "v=-42 s=x%y {a} 100% } "" " ++ [LF] ++ b "[1 2]"), []).
Proof. vm_compute. split; reflexivity. Qed.

Example C11_example_iraw :
  pipeline IRaw ex_env (b "raw {a} ""q"" \{s}" ++ [LF] ++ b "50% }`")
  = (Ok (b "raw -42 ""q"" \x%y" ++ [LF] ++ b "50% }"), []).
Proof. vm_compute. reflexivity. Qed.

Example C11_example_newline_in_quoted :
  wf IStr ex_env (b "x" ++ [LF] ++ b "{a}") = true /\
  pipeline IStr ex_env (b "x" ++ [LF] ++ b "{a}"" rest") = (Ok (b "x" ++ [LF] ++ b "-42"), b " rest").
Proof. vm_compute. split; reflexivity. Qed.

Example C11_example_bom :
  wf IRaw ex_env (b "a" ++ BOM ++ b "{a}") = true /\
  pipeline IRaw ex_env (b "a" ++ BOM ++ b "{a}` rest") = (Ok (b "a" ++ BOM ++ b "-42"), b " rest") /\
  emit IRaw (b "a\ufeff{a}") = Some (GoSInterP (b "a\ufeff%s") [b "a"]).
Proof. vm_compute. repeat split; reflexivity. Qed.

(** outside the grammar the model predicts fc's / Go's actual behaviour (not part of the property) *)
Example C11_example_unknown_escape :
  denote Str [] (b "a\qb") = None /\ fst (pipeline Str [] (b "a\qb""")) = CompileError.
Proof. vm_compute. split; reflexivity. Qed.
Example C11_example_open_brace :
  fst (pipeline IStr ex_env (b "{a""")) = InterpPanic.
Proof. vm_compute. reflexivity. Qed.
