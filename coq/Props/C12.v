(** C12 — slice library functions are pure: no call changes an existing slice value.
    Statements only; each is closed by [exact] of a lemma of Pkg/SliceHistory.v / SliceHeapProofs.v.

    Model (Pkg/SliceHeap.v): heap = list of arrays, slice = (array|nil, off, len, cap); every
    function of pkg/slice/slice.go transcribed with Go's append (in place when len+n <= cap, else a
    fresh array of capacity [grow oldcap needed]) and slices.SortFunc (in-place permutation
    [sorter]). A history is a list of calls whose slice arguments are indices into the pool of
    all slice values produced so far ([run]); [observe] = the contents of every pool value. *)
From Coq Require Import List ZArith Permutation.
From FoVerif Require Import Pkg.SliceHeap Pkg.SliceHeapBase Pkg.SliceHeapProofs Pkg.SliceHistory.
Import ListNotations.

(** For every growth policy of append ([needed <= grow oldcap needed]), every in-place sorting
    permutation, every history [before ++ after] (any calls, any arguments, any callbacks) and
    every slice value v that exists after [before]: v is still the same pool entry after the
    whole history and its contents are those it had after [before]. Taking [before] = the history
    up to and including the call that created v gives "contents at creation". *)
Theorem C12_history_preserves_contents :
  forall sorter, (forall key l, Permutation l (sorter key l)) ->
  forall grow, (forall c n, n <= grow c n) ->
  forall before after i v,
    nth_error (snd (run grow sorter init before)) i = Some v ->
    nth_error (snd (run grow sorter init (before ++ after))) i = Some v /\
    contents (fst (run grow sorter init (before ++ after))) v
    = contents (fst (run grow sorter init before)) v.
Proof. exact history_preserves_contents. Qed.
Print Assumptions C12_history_preserves_contents.

(** the same on the observable the harness compares (list of contents of the pool) *)
Theorem C12_history_preserves_observed_contents :
  forall sorter, (forall key l, Permutation l (sorter key l)) ->
  forall grow, (forall c n, n <= grow c n) ->
  forall before after i l,
    nth_error (observe (run grow sorter init before)) i = Some l ->
    nth_error (observe (run grow sorter init (before ++ after))) i = Some l.
Proof. exact history_preserves_contents_observe. Qed.
Print Assumptions C12_history_preserves_observed_contents.

(** per call (the invariant the history theorem is built from): on a state whose pool values are
    valid, no array that existed before the call is modified, the new pool is the old one plus
    the results, all valid *)
Theorem C12_step_modifies_no_existing_array :
  forall sorter, (forall key l, Permutation l (sorter key l)) ->
  forall grow, (forall c n, n <= grow c n) ->
  forall st c, wf st ->
    heap_extends (fst st) (fst (step grow sorter st c)) /\ wf (step grow sorter st c) /\
    observe (step grow sorter st c) = spec_step sorter (observe st) c /\
    exists new, snd (step grow sorter st c) = snd st ++ new.
Proof. exact step_spec. Qed.
Print Assumptions C12_step_modifies_no_existing_array.

(** the whole heap implementation refines the pure list semantics of the same history ... *)
Theorem C12_run_refines_lists :
  forall sorter, (forall key l, Permutation l (sorter key l)) ->
  forall grow, (forall c n, n <= grow c n) ->
  forall cs, observe (run grow sorter init cs) = spec_run sorter [] cs.
Proof. exact run_refines_lists. Qed.
Print Assumptions C12_run_refines_lists.

(** ... hence contents never depend on the growth policy (this is what lets the harness compare
    contents while the oracle runs a growth policy different from the Go runtime's) *)
Theorem C12_contents_independent_of_grow :
  forall sorter, (forall key l, Permutation l (sorter key l)) ->
  forall grow1 grow2, (forall c n, n <= grow1 c n) -> (forall c n, n <= grow2 c n) ->
  forall cs, observe (run grow1 sorter init cs) = observe (run grow2 sorter init cs).
Proof. exact contents_independent_of_grow. Qed.
Print Assumptions C12_contents_independent_of_grow.

(** the oracle's instances satisfy the hypotheses *)
Theorem C12_oracle_sorter_is_permutation : forall key l, Permutation l (isort_by key l).
Proof. exact isort_by_perm. Qed.
Theorem C12_oracle_grow_ok : forall c n, n <= grow_double c n.
Proof. intros c n. apply Nat.le_max_l. Qed.
Print Assumptions C12_oracle_sorter_is_permutation. Print Assumptions C12_oracle_grow_ok.

(** documentation: the code before the repair of PushLast ([return append(s, elem)]) violated the
    property — PopLast then PushLast overwrites the source; two PushLast on a value with spare
    capacity overwrite each other's result *)
Example C12_old_pushlast_refuted_shortened :
  let cs := [CLit [VI 1; VI 2; VI 3]; CPopLast 0; CPushLast (VI 9) 1] in
  nth 0 (observe (fold_left (step_OLD grow_double isort_by) (firstn 2 cs) init)) [] = [VI 1; VI 2; VI 3] /\
  nth 0 (observe (fold_left (step_OLD grow_double isort_by) cs init)) [] = [VI 1; VI 2; VI 9].
Proof. exact poplast_pushlast_old_refuted. Qed.
Example C12_old_pushlast_refuted_spare_capacity :
  let cs := [CMake [VI 1] 2; CPushLast (VI 2) 0; CPushLast (VI 3) 0] in
  nth 1 (observe (fold_left (step_OLD grow_double isort_by) (firstn 2 cs) init)) [] = [VI 1; VI 2] /\
  nth 1 (observe (fold_left (step_OLD grow_double isort_by) cs init)) [] = [VI 1; VI 3].
Proof. exact double_pushlast_old_refuted. Qed.

(** non-vacuity: a history with real sharing (PopLast/Tail results share the literal's array,
    then PushLast, Sort, Append, PushHead on them) — every value keeps its contents *)
Example C12_example_history :
  let cs := [CMake [VI 3; VI 1; VI 2] 2; CPopLast 0; CTail 0; CPushLast (VI 9) 1; CPushLast (VI 8) 0;
             CSort 0; CAppend 1 2; CPushHead (VI 7) 2; CTake 5 0; CZip 1 2] in
  observe (run grow_double isort_by init cs) =
  [[VI 3; VI 1; VI 2]; [VI 3; VI 1]; [VI 1; VI 2]; [VI 3; VI 1; VI 9]; [VI 3; VI 1; VI 2; VI 8];
   [VI 1; VI 2; VI 3]; [VI 3; VI 1; VI 1; VI 2]; [VI 7; VI 1; VI 2]; [VP (VI 3) (VI 1); VP (VI 1) (VI 2)]].
Proof. vm_compute. reflexivity. Qed.
