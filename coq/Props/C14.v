(** C14 — dict, strings, buf and frt helpers behave as their signatures promise.
    Statements only; each is closed by [exact] of a lemma of Pkg/*Proofs.v. *)
From Coq Require Import List Ascii String ZArith Bool Permutation.
From FoVerif Require Import Pkg.Buf Pkg.Strings Pkg.Dict Pkg.Frt
  Pkg.StringsProofs Pkg.DictProofs Pkg.BufProofs Pkg.FrtProofs.
Import ListNotations.

(** * dict: a finite map, over ALL operation histories.
    For every comparable key type (an equality test [keqb]), every value type, every zero value
    and every family [enum] of enumeration orders (one per [range], any permutation), the results
    of any history of New / Add / ContainsKey / TryFind / Item / KVs / Keys / Values / ToDict on
    any number of dictionaries are exactly those allowed by [res_ok] on finite maps [K -> option V]:
    Add overwrites, ContainsKey / TryFind / Item reflect exactly the added keys, Keys / Values /
    KVs enumerate each entry once, ToDict keeps the last value per key ([last_val]). *)
Theorem C14_dict_refines_map :
  forall (K V : Type) (keqb : K -> K -> bool) (vzero : V) (enum : nat -> list (K * V) -> list (K * V)),
    (forall a b, keqb a b = true <-> a = b) ->
    (forall i l, Permutation (enum i l) l) ->
    forall ops : list (op K V),
      trace_ok K V keqb vzero [] ops (snd (run K V keqb vzero enum 0 [] ops)).
Proof. exact dict_refines_map. Qed.
Print Assumptions C14_dict_refines_map.

(** [last_val], used by the specification of ToDict, is the LAST value paired with the key:
    a pair appended at the end wins, and a key has a value iff it occurs *)
Theorem C14_todict_last_value_wins :
  forall (K V : Type) (keqb : K -> K -> bool), (forall a b, keqb a b = true <-> a = b) ->
  forall ss k v,
    (forall k', last_val K V keqb (ss ++ [(k, v)]) k' = if keqb k' k then Some v else last_val K V keqb ss k') /\
    (last_val K V keqb ss k = None <-> ~ In k (map fst ss)).
Proof. exact last_val_is_last. Qed.
Print Assumptions C14_todict_last_value_wins.

(** the oracle's instance (string keys, integer values, stored order or its reverse) meets the hypotheses *)
Theorem C14_oracle_dict_instance :
  (forall a b, bytes_eqb a b = true <-> a = b) /\ (forall r i l, Permutation (enum_sz r i l) l).
Proof. exact (conj bytes_eqb_spec enum_sz_perm). Qed.
Print Assumptions C14_oracle_dict_instance.

(** * strings: specifications in terms of [++] only *)
Theorem C14_has_prefix_spec : forall p s, HasPrefix p s = true <-> exists t, s = p ++ t.
Proof. exact has_prefix_spec. Qed.
Print Assumptions C14_has_prefix_spec.

Theorem C14_has_suffix_spec : forall x s, HasSuffix x s = true <-> exists t, s = t ++ x.
Proof. exact has_suffix_spec. Qed.
Print Assumptions C14_has_suffix_spec.

Theorem C14_trim_suffix_spec : forall x,
  (forall t, TrimSuffix x (t ++ x) = t) /\
  (forall s, (forall t, s <> t ++ x) -> TrimSuffix x s = s).
Proof. exact (fun x => conj (trim_suffix_removes x) (trim_suffix_keeps x)). Qed.
Print Assumptions C14_trim_suffix_spec.

Theorem C14_concat_is_join : forall sep l, Concat sep l = join sep l.
Proof. exact concat_is_join. Qed.
Print Assumptions C14_concat_is_join.

(** Split, non-empty separator: the pieces joined by the separator give the subject back, there
    is at least one piece and no piece contains the separator *)
Theorem C14_split_spec : forall sep s, sep <> [] ->
  Concat sep (Split sep s) = s /\ Split sep s <> [] /\
  Forall (fun p => ~ contains sep p) (Split sep s).
Proof.
  exact (fun sep s H => conj (split_concat sep s H) (conj (split_nonempty sep s H) (split_pieces_sep_free sep s H))).
Qed.
Print Assumptions C14_split_spec.

(** SplitN: count 0 gives nothing, a negative count is Split, a positive count n gives between 1
    and n pieces that join back to the subject, all but the last free of the separator, and the
    last too when there are fewer than n *)
Theorem C14_splitn_spec : forall sep s,
  SplitN 0 sep s = [] /\
  (forall n, (n < 0)%Z -> SplitN n sep s = Split sep s) /\
  (forall n, (0 < n)%Z -> sep <> [] ->
     let l := SplitN n sep s in
     Concat sep l = s /\ 1 <= List.length l <= Z.to_nat n /\
     Forall (fun p => ~ contains sep p) (removelast l) /\
     (List.length l < Z.to_nat n -> Forall (fun p => ~ contains sep p) l)).
Proof.
  exact (fun sep s => conj (splitn_zero sep s)
          (conj (fun n H => splitn_negative n sep s H) (fun n H1 H2 => splitn_positive n sep s H1 H2))).
Qed.
Print Assumptions C14_splitn_spec.

Theorem C14_append_enclose_spec : forall x y c,
  AppendHead x c = x ++ c /\ AppendTail x c = c ++ x /\ EncloseWith x y c = x ++ c ++ y /\
  Length c = List.length c /\ (IsEmpty c = true <-> c = []) /\ (IsNotEmpty c = true <-> c <> []).
Proof.
  exact (fun x y c => conj (append_head_spec x c) (conj (append_tail_spec x c) (conj (enclose_with_spec x y c)
          (conj (length_spec c) (conj (is_empty_spec c) (is_not_empty_spec c)))))).
Qed.
Print Assumptions C14_append_enclose_spec.

(** * buf: at any point of any history (any number of buffers, interleaved writes) buf.String
    returns the strings written to that buffer so far, concatenated in order *)
Theorem C14_buf_accumulates_in_order : forall pre id post,
  id < news pre ->
  nth_error (snd (brun [] (pre ++ BString id :: post))) (List.length pre)
  = Some (BStr (spec_content id 0 pre)).
Proof. exact buf_accumulates_in_order. Qed.
Print Assumptions C14_buf_accumulates_in_order.

(** * frt *)
Theorem C14_pipe_is_application : forall (T U : Type) (x : T) (f : T -> U), Pipe x f = f x.
Proof. exact pipe_is_application. Qed.
Print Assumptions C14_pipe_is_application.

Theorem C14_ifelse_runs_exactly_one : forall (E T : Type) (c : bool) (e1 e2 : list E) (v1 v2 : T) tr,
  IfElse c (logging e1 v1) (logging e2 v2) tr = (tr ++ (if c then e1 else e2), if c then v1 else v2) /\
  IfElseUnit c (logging e1 tt) (logging e2 tt) tr = (tr ++ (if c then e1 else e2), tt) /\
  IfOnly c (logging e1 tt) tr = (tr ++ (if c then e1 else []), tt).
Proof.
  exact (fun E T c e1 e2 v1 v2 tr => conj (ifelse_runs_exactly_one E T c e1 e2 v1 v2 tr)
          (conj (ifelseunit_runs_exactly_one E c e1 e2 tr) (ifonly_runs_at_most_one E c e1 tr))).
Qed.
Print Assumptions C14_ifelse_runs_exactly_one.

(** for arbitrary thunks: the conditional IS the chosen thunk *)
Theorem C14_ifelse_runs_chosen : forall (E T : Type) (c : bool) (t f : eff E T) tr,
  IfElse c t f tr = (if c then t tr else f tr).
Proof. exact ifelse_runs_chosen. Qed.
Print Assumptions C14_ifelse_runs_chosen.

Theorem C14_tuple_roundtrips : forall (T U W : Type) (a : T) (b0 : U) (c : W) (t2 : Tuple2 T U) (t3 : Tuple3 T U W),
  (Fst (NewTuple2 a b0) = a /\ Snd (NewTuple2 a b0) = b0 /\ Destr2 (NewTuple2 a b0) = (a, b0) /\
   NewTuple2 (Fst t2) (Snd t2) = t2 /\ (let '(x, y) := Destr2 t2 in NewTuple2 x y) = t2) /\
  (Destr3 (NewTuple3 a b0 c) = (a, b0, c) /\ (let '(x, y, z) := Destr3 t3 in NewTuple3 x y z) = t3).
Proof. exact (fun T U W a b0 c t2 t3 => conj (tuple2_roundtrips T U a b0 t2) (tuple3_roundtrips T U W a b0 c t3)). Qed.
Print Assumptions C14_tuple_roundtrips.

(** toS never panics on any modelled value (ints and uints of every width, floats, strings,
    bools, structs, slices) and renders integers in decimal, strings as themselves *)
Theorem C14_to_s_total : forall v,
  toS v = Ok (match v with
              | GInt _ z | GUint _ z => dec z
              | GFloat _ f _ => f
              | GStr s => s
              | _ => fmt_v v
              end).
Proof. exact to_s_renders. Qed.
Print Assumptions C14_to_s_total.

Theorem C14_dec_is_decimal : forall z, z_of_dec (dec z) = z.
Proof. exact dec_reads_back. Qed.
Print Assumptions C14_dec_is_decimal.

(** SInterP never panics, whatever the format and the operands; a format of text, %% and one
    %s / %v per operand is always filled in *)
Theorem C14_sinterp_total : forall f args,
  (exists r, SInterP f args = Ok r) /\
  (count_sv f = Some (List.length args) -> exists s, SInterP f args = Ok (Some s)).
Proof. exact (fun f args => conj (sinterp_total f args) (sinterp_wellformed f args)). Qed.
Print Assumptions C14_sinterp_total.

(** * non-vacuity *)
Example C14_example_dict :
  run_sz true [ONew _ _; OAdd _ _ 0 (b "a") 1%Z; OAdd _ _ 0 (b "b") 2%Z; OAdd _ _ 0 (b "a") 3%Z;
               OTryFind _ _ 0 (b "a"); OKeys _ _ 0; OToDict _ _ [(b "x", 1%Z); (b "x", 2%Z)]; OItem _ _ 1 (b "x")]
  = [RRef _ _ 0; RUnit _ _; RUnit _ _; RUnit _ _; RFind _ _ 3%Z true; RKeys _ _ [b "b"; b "a"]; RRef _ _ 1; RVal _ _ 2%Z].
Proof. vm_compute. reflexivity. Qed.

Example C14_example_split :
  Split (b ",") (b ",a,,b,") = [b ""; b "a"; b ""; b "b"; b ""] /\
  SplitN 2 (b " ") (b "a.fo Two words") = [b "a.fo"; b "Two words"] /\
  Split (b "aa") (b "aaa") = [b ""; b "a"] /\
  HasPrefix (b "ab") (b "abc") = true /\ HasPrefix (b "abc") (b "ab") = false /\
  TrimSuffix (b ".fo") (b "x.fo") = b "x".
Proof. vm_compute. repeat split. Qed.

Example C14_example_buf :
  snd (brun [] [BNew; BWrite 0 (b "ab"); BNew; BWrite 1 (b "x"); BWrite 0 (b "cd"); BString 0; BString 1])
  = [BRef 0; BUnit; BRef 1; BUnit; BUnit; BStr (b "abcd"); BStr (b "x")].
Proof. vm_compute. reflexivity. Qed.

Example C14_example_sinterp :
  SInterP (b "a %s b %v %%") [GInt KInt8 (-5); GStruct [GUint KUint64 18446744073709551615; GStr (b "x"); GSlice [GBool true]]]
  = Ok (Some (b "a -5 b {18446744073709551615 x [true]} %")).
Proof. vm_compute. reflexivity. Qed.

(** before the repair of frt.toS an unsigned operand panicked *)
Example C14_example_old_toS_panics : exists m, toS_old (GUint KUint8 7) = Panic m.
Proof. eexists. reflexivity. Qed.
