(** C17 — tinyfo (the bootstrap transpiler) preserves behaviour on the early-Folang subset.
    Statements only; each is closed by [exact] of a lemma of Core/CompileTinyProof.v / Core/CompileTiny.v.

    [compile_tiny] (Core/CompileTiny.v, Core/Compile.v with dialect [DTiny]) transcribes tinyfo/ast.go onto the
    MiniFo / MiniGo models of C01; [tiny_subset p] are the constructs tinyfo's parser accepts: no [fun] / inner
    functions, no string match, no interpolation, no block expression, no [*], pairs only, non-empty slice
    literals, field access only on variables.  [wt], [pap_args_pure], [run_src], [run_go], [compile_prog]: as in
    Props/C01.v.  The proof is the simulation of C01, which is generic in the dialect; [tiny_subset] itself is
    not needed by the proof (the modelled lowering is correct on all of MiniFo) but delimits what tinyfo accepts. *)
From Coq Require Import List ZArith String.
From FoVerif Require Import Core.Common Core.Lib Core.MiniFo Core.MiniGo Core.Compile Core.SimDefs
  Core.CompileExamples Core.CompileTiny Core.CompileTinyProof.
Import ListNotations.

(** Whenever the source semantics runs a program of the subset to completion with output [out], tinyfo's Go
    program, run in the MiniGo semantics, terminates with exactly [out]. *)
Theorem C17_compile_tiny_correct : forall p n out,
  tiny_subset p -> wt p -> pap_args_pure p ->
  run_src n p = ODone out -> exists m, run_go m (compile_tiny p) = ODone out.
Proof. exact compile_tiny_correct. Qed.
Print Assumptions C17_compile_tiny_correct.

(** every completed run of tinyfo's Go prints the source's output *)
Theorem C17_tiny_output_is_source_output : forall p n out,
  tiny_subset p -> wt p -> pap_args_pure p -> run_src n p = ODone out ->
  forall m out', run_go m (compile_tiny p) = ODone out' -> out' = out.
Proof. exact tiny_output_is_source_output. Qed.
Print Assumptions C17_tiny_output_is_source_output.

(** "the same output fc's translation of the same program gives" *)
Theorem C17_tiny_agrees_with_fc : forall p n o m1 m2 out out',
  tiny_subset p -> wt p -> pap_args_pure p -> run_src n p = ODone o ->
  run_go m1 (compile_tiny p) = ODone out -> run_go m2 (compile_prog p) = ODone out' -> out = out'.
Proof. exact tiny_agrees_with_fc. Qed.
Print Assumptions C17_tiny_agrees_with_fc.

Theorem C17_tiny_and_fc_both_run : forall p n o,
  tiny_subset p -> wt p -> pap_args_pure p -> run_src n p = ODone o ->
  exists m, run_go m (compile_tiny p) = ODone o /\ run_go m (compile_prog p) = ODone o.
Proof. exact tiny_and_fc_both_run. Qed.
Print Assumptions C17_tiny_and_fc_both_run.

(** the oracle's answer TINY to [C17 (subset <prog>)] is sound *)
Theorem C17_subset_check_sound : forall n p, tiny_b n p = true -> tiny_subset p.
Proof. exact tiny_b_sound. Qed.
Print Assumptions C17_subset_check_sound.

(** The known defect of C01 (finding (a)) is shared by tinyfo: the program with an effectful argument in a
    partial application is in tinyfo's subset, tinyfo's Go prints what fc's Go prints, not what the source prints. *)
Theorem C17_effectful_pap_refuted :
  exists p n m o1 o2, tiny_subset p /\ wt p /\ run_src n p = ODone o1 /\ run_go m (compile_tiny p) = ODone o2 /\ o1 <> o2.
Proof.
  exists ex_effectful_pap, 100, 200. eexists. eexists.
  split; [exact ex_effectful_pap_tiny|]. split; [exact ex_effectful_pap_wt|]. split; [exact ex_effectful_pap_src|].
  split; [rewrite ex_effectful_pap_tiny_go; exact ex_effectful_pap_go|]. vm_compute. discriminate.
Qed.
Print Assumptions C17_effectful_pap_refuted.

(** non-vacuity: a program of the subset (annotated functions incl. recursion, a partial application, pipes,
    if/elif/else, if without else, a record, a union with matches in return / let / statement position, a pair
    and destructuring, a slice with Map / Take / Iter, [=] [<>] [not] [&&] [||]) *)
Example C17_example_in_subset : tiny_subset ex_tiny /\ wt ex_tiny /\ pap_args_pure ex_tiny.
Proof. split; [exact ex_tiny_subset|split; [exact ex_tiny_wt|exact ex_tiny_pure]]. Qed.
Example C17_example_outputs :
  run_src 100 ex_tiny = run_go 200 (compile_tiny ex_tiny) /\
  run_go 200 (compile_tiny ex_tiny) = run_go 200 (compile_prog ex_tiny) /\
  exists out, run_src 100 ex_tiny = ODone out /\ String.length out = 86.
Proof. vm_compute. repeat split. eexists; split; reflexivity. Qed.
