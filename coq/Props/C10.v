(** C10 — [=] and [<>] are total structural equality on first-order values.
    Statements only; each is closed by [exact] of a lemma of Core/EqualityProofs.v.

    [val] = ints, strings, bools, tuples, records (field names of any capitalisation), union cases
    with payload, slices with their representation flag (nil / non-nil), arbitrarily nested.
    [op_equal] / [op_not_equal] model frt.OpEqual / OpNotEqual with the options passed today
    (cmp.Exporter for every type, cmpopts.EquateEmpty); [struct_eq] is the specification, blind to
    representation.  The statements hold for ALL pairs of values, in particular for every pair of
    the same Folang type (the only pairs [=] can be applied to). *)
From Coq Require Import List Ascii String ZArith Bool.
From FoVerif Require Import Pkg.Buf Pkg.Frt Core.Equality Core.EqualityProofs.
Import ListNotations.

(** a = b never panics and is exactly structural equality *)
Theorem C10_op_equal_is_struct_eq : forall a b, op_equal a b = Ok (struct_eq a b).
Proof. exact op_equal_is_struct_eq. Qed.
Print Assumptions C10_op_equal_is_struct_eq.

(** a <> b is its negation *)
Theorem C10_op_not_equal_is_negation : forall a b, op_not_equal a b = Ok (negb (struct_eq a b)).
Proof. exact op_not_equal_is_negation. Qed.
Print Assumptions C10_op_not_equal_is_negation.

(** structural equality is equality once the representation (nil vs empty) is forgotten ... *)
Theorem C10_struct_eq_is_equality_up_to_representation :
  forall a b, struct_eq a b = true <-> erase a = erase b.
Proof. exact struct_eq_iff_erase. Qed.
Print Assumptions C10_struct_eq_is_equality_up_to_representation.

(** ... hence an equivalence *)
Theorem C10_struct_eq_refl : forall a, struct_eq a a = true.
Proof. exact struct_eq_refl. Qed.
Print Assumptions C10_struct_eq_refl.
Theorem C10_struct_eq_sym : forall a b, struct_eq a b = struct_eq b a.
Proof. exact struct_eq_sym. Qed.
Print Assumptions C10_struct_eq_sym.
Theorem C10_struct_eq_trans : forall a b c,
  struct_eq a b = true -> struct_eq b c = true -> struct_eq a c = true.
Proof. exact struct_eq_trans. Qed.
Print Assumptions C10_struct_eq_trans.

(** two slices with the same elements are equal however they were produced *)
Theorem C10_library_path_is_invisible : forall a a' b,
  erase a = erase a' -> op_equal a b = op_equal a' b.
Proof. exact op_equal_ignores_representation. Qed.
Print Assumptions C10_library_path_is_invisible.

(** non-vacuity: a record with lower-case fields holding an empty slice built two ways *)
Example C10_example_now :
  let r1 := VRecord (b "R") [b "X"; b "items"] (VCons (VInt 1) (VCons (VSlice true VNil) VNil)) in
  let r2 := VRecord (b "R") [b "X"; b "items"] (VCons (VInt 1) (VCons (VSlice false VNil) VNil)) in
  let r3 := VRecord (b "R") [b "X"; b "items"] (VCons (VInt 1) (VCons (VSlice false (VCons (VInt 5) VNil)) VNil)) in
  op_equal r1 r2 = Ok true /\ op_not_equal r1 r2 = Ok false /\ op_equal r1 r3 = Ok false /\
  op_equal (VUnion (b "U") (b "A") (VCons r1 VNil)) (VUnion (b "U") (b "B") VNil) = Ok false.
Proof. vm_compute. repeat split. Qed.

(** documentation — the behaviour BEFORE the repair (cmp.Equal without options, [op_equal_old]):
    an unexported (lower-case) record field panics, wherever it is nested; nil and empty differ *)
Example C10_old_panics_on_lower_case_field :
  op_equal_old (VRecord (b "R") [b "X"; b "name"] (VCons (VInt 1) (VCons (VStr (b "a")) VNil)))
               (VRecord (b "R") [b "X"; b "name"] (VCons (VInt 1) (VCons (VStr (b "a")) VNil))) = Panic /\
  op_equal_old (VTuple (VCons (VRecord (b "R") [b "name"] (VCons (VStr (b "a")) VNil)) (VCons (VInt 1) VNil)))
               (VTuple (VCons (VRecord (b "R") [b "name"] (VCons (VStr (b "a")) VNil)) (VCons (VInt 2) VNil))) = Panic.
Proof. vm_compute. split; reflexivity. Qed.

Example C10_old_distinguishes_nil_and_empty :
  op_equal_old (VSlice true VNil) (VSlice false VNil) = Ok false /\
  op_equal_old (VSlice true VNil) (VSlice true VNil) = Ok true /\
  op_equal_old (VSlice false VNil) (VSlice false VNil) = Ok true.
Proof. vm_compute. repeat split. Qed.

(** the old variant is therefore NOT structural equality *)
Example C10_old_refuted : exists a b, op_equal_old a b <> Ok (struct_eq a b).
Proof. exists (VSlice true VNil), (VSlice false VNil). vm_compute. discriminate. Qed.
