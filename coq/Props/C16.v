(** C16 — fc always terminates with either complete output or a diagnostic.   (PARTIAL)

    Full statement (not provable here: it quantifies over the whole recursive-descent parser,
    the inference and the emitter, which are not modelled, and over stack/heap exhaustion):

      for every argument list and file content fc terminates; it exits 0 only if every gen_*.go
      it was asked for has been completely written; otherwise it exits non-zero after printing a
      diagnostic, writes nothing for the offending file, and never hangs or dies of a Go run-time
      fatal error.

    Proved below, each over all inputs, for the faithful transcriptions of
      - the scanners of fc/wrapper.go (Front/Term.v): never out of fuel, progress, tokenizer
        termination, ParseSInterP / reinterpretEscape totality;
      - the list loops ParseList / ParseList2 / ParseSepList (Front/ListLoop.v);
      - type-variable resolution with the path check (Core/Resolve.v);
      - the file driver transpileFiles / transpileOne (Driver/FileDriver.v).
    Explored only (mutation fuzzing in harness/c16.go): everything between the token stream and
    the emitted text.

    Statements only; each is closed by [exact] of a lemma of the proof files. *)
From Coq Require Import List Arith Bool ZArith String.
From FoVerif Require Import Front.Term Front.TermProofs Front.ListLoop.
From FoVerif Require Import Core.Resolve Core.ResolveProofs Driver.FileDriver Driver.FileDriverProofs.
From Coq Require Import NArith.
From FoVerif Require Core.Resolver Core.ResolverBound Core.ResolverBoundProofs.
Import ListNotations.

(* ------------------------------------------------------------------ scanners *)

(** scanTokenAt with fuel length+1, at any position of any buffer: the EOF token exactly at the
    end; otherwise a diagnostic, or a non-empty token inside the buffer that begins at [pos]
    (at [pos+1] for $"…" / $`…`, whose token excludes the dollar sign). Never OutOfFuel. *)
Theorem C16_scan_total : forall buf pos,
  pos <= List.length buf ->
  (pos = List.length buf /\ scan_token_at (S (List.length buf)) buf pos = Tok EOF pos 0 PNone)
  \/ (pos < List.length buf /\
      match scan_token_at (S (List.length buf)) buf pos with
      | Tok ty b l _ => ty <> EOF /\ (b = pos \/ (ty = SINTERP /\ b = S pos)) /\ 0 < l /\
                        b + l <= List.length buf
      | Diag _ => True
      | OutOfFuel => False
      end).
Proof. exact scan_total. Qed.
Print Assumptions C16_scan_total.

(** nextToken from any position [p]: the EOF token, a diagnostic, or a non-SPACE token that ends
    strictly after [p]. *)
Theorem C16_next_token_progress : forall buf p,
  match next_token (S (List.length buf)) buf p with
  | Tok ty b l _ =>
    (ty = EOF /\ b = List.length buf /\ l = 0) \/
    (ty <> EOF /\ ty <> SPACE /\ p <= b /\ 0 < l /\ b + l <= List.length buf)
  | Diag _ => True
  | OutOfFuel => False
  end.
Proof. exact next_token_progress. Qed.
Print Assumptions C16_next_token_progress.

(** newTkz / tkzNext iterated from any position: EOF or a diagnostic within length+1 tokens. *)
Theorem C16_tokenize_terminates : forall buf p acc,
  match tokenize (S (List.length buf)) (S (List.length buf)) buf p acc with
  | TDone _ | TDiag _ _ => True
  | TOutOfFuel | TOutOfSteps => False
  end.
Proof. exact tokenize_terminates. Qed.
Print Assumptions C16_tokenize_terminates.

Theorem C16_parse_sinterp_total : forall buf,
  match parse_sinterp (S (List.length buf)) buf with
  | SOk _ _ | SDiag _ => True
  | SOutOfFuel => False
  end.
Proof. exact parse_sinterp_total. Qed.
Print Assumptions C16_parse_sinterp_total.

Theorem C16_reinterpret_escape_total : forall buf,
  reinterpret_escape (S (List.length buf)) buf <> EOutOfFuel.
Proof. exact reinterpret_escape_total. Qed.
Print Assumptions C16_reinterpret_escape_total.

(** the defect repaired by commit 454a055, kept as a refutation of the old scanner: without the
    end-of-buffer guard in the line-comment loop, a buffer that ends inside a line comment exhausts
    every amount of fuel. *)
Theorem C16_scan_space_old_eof_comment_refuted :
  exists buf, forall fuel, scan_space_old fuel buf 0 = OutOfFuel.
Proof. exact scan_space_old_eof_comment_refuted. Qed.
Print Assumptions C16_scan_space_old_eof_comment_refuted.

(** non-vacuity: concrete buffers *)
Definition b (s : string) : bytes := bytes_of_string s.

Example C16_example_stream :
  tokens (b "let x = 12 // c
") = TDone [(LET, 0, 3, PStr (b "let")); (IDENTIFIER, 4, 1, PStr (b "x")); (EQ, 6, 1, PStr (b "="));
            (INT_IMM, 8, 2, PInt 12); (EOL, 15, 1, PStr [10]); (EOF, 16, 0, PNone)].
Proof. vm_compute. reflexivity. Qed.

Example C16_example_comment_at_eof :           (* hung before 454a055 *)
  tokens (b "x //c") = TDone [(IDENTIFIER, 0, 1, PStr (b "x")); (EOF, 5, 0, PNone)].
Proof. vm_compute. reflexivity. Qed.

Example C16_example_number_at_eof :            (* buf[pos+i] past the end: a diagnostic *)
  tokens (b "x 12") = TDiag [(IDENTIFIER, 0, 1, PStr (b "x"))] idx_msg.
Proof. vm_compute. reflexivity. Qed.

Example C16_example_unclosed_comment :
  scan_token_at 5 (b "/* x") 0 = Diag "No comment end found.".
Proof. vm_compute. reflexivity. Qed.

Example C16_example_unclosed_string :
  scan_token_at 5 (b """abc") 0 = Diag "unclosed string literal".
Proof. vm_compute. reflexivity. Qed.

Example C16_example_string_newline :           (* a raw newline in the literal becomes backslash, n in the value *)
  scan_token_at 6 (b """a
b""") 0 = Tok STRING 0 5 (PStr [97; 92; 110; 98]).
Proof. vm_compute. reflexivity. Qed.

Example C16_example_string_bom :               (* EF BB BF inside a literal becomes the escape backslash ufeff; length counts the 3 bytes *)
  scan_token_at 8 [34; 97; 239; 187; 191; 98; 34] 0
  = Tok STRING 0 7 (PStr (b "a\ufeffb")).
Proof. vm_compute. reflexivity. Qed.

Example C16_example_raw_bom :
  scan_token_at 6 [96; 239; 187; 191; 96] 0 = Tok STRING 0 5 (PStr (b "\ufeff")).
Proof. vm_compute. reflexivity. Qed.

Example C16_example_bom_outside_literal :      (* a stray 0xEF hits the default panic(b) *)
  scan_token_at 4 [239; 187; 191] 0 = Diag bad_byte_msg.
Proof. vm_compute. reflexivity. Qed.

(** the defect of the intermediate commit 0061363 (isStringAt ranged over runes), repaired by
    2ecf680: the rune-wise test took any three bytes starting with EF for a byte order mark *)
Theorem C16_bom_test_runewise_old_refuted :
  exists buf j, bom_at_runewise_old buf j = true /\ is_string_at buf j bom = false.
Proof. exact bom_test_runewise_old_refuted. Qed.
Print Assumptions C16_bom_test_runewise_old_refuted.

Example C16_example_ef_character_kept :        (* U+FF71 (EF BD B1) in a literal stays as it is *)
  scan_token_at 6 [34; 239; 189; 177; 34] 0 = Tok STRING 0 5 (PStr [239; 189; 177]).
Proof. vm_compute. reflexivity. Qed.

Example C16_example_sinterp_token :            (* begins after the dollar sign *)
  scan_token_at 7 (b "$""a{x}""") 0 = Tok SINTERP 1 6 (PStr (b "a{x}")).
Proof. vm_compute. reflexivity. Qed.

Example C16_example_sinterp :
  parse_sinterp 20 (b "a{x}b\{c\}100%{yy}") = SOk (b "a%sb{c}100%%%s") [b "x"; b "yy"].
Proof. vm_compute. reflexivity. Qed.

Example C16_example_sinterp_open :
  parse_sinterp 5 (b "a{xy") = SDiag "Open brace but no close brace".
Proof. vm_compute. reflexivity. Qed.

Example C16_example_sinterp_brace_last :
  parse_sinterp 3 (b "a{") = SDiag idx_msg.
Proof. vm_compute. reflexivity. Qed.

(* ------------------------------------------------------------------ list loops *)

(** ParseList over any parser state with a measure: if every successful step consumes at least one
    token, remaining+1 rounds suffice — a result whose state is not behind the start, or a
    diagnostic; never OutOfFuel. Any end predicate. *)
Theorem C16_parse_list_progress :
  forall (ps T : Type) (remaining : ps -> nat) (one : ps -> option (ps * T)) (end_pred : ps -> bool),
  (forall p p' r, one p = Some (p', r) -> remaining p' < remaining p) ->
  forall p,
    match parse_list ps T one end_pred (S (remaining p)) p [] with
    | LOk p' _ => remaining p' <= remaining p
    | LDiag => True
    | LOutOfFuel => False
    end.
Proof. exact parse_list_progress. Qed.
Print Assumptions C16_parse_list_progress.

Theorem C16_parse_list2_progress :
  forall (ps T : Type) (remaining : ps -> nat) (one : ps -> option (ps * T)) (end_pred : ps -> bool)
         (next : ps -> option ps),
  (forall p p' r, one p = Some (p', r) -> remaining p' < remaining p) ->
  (forall p p', next p = Some p' -> remaining p' <= remaining p) ->
  forall p,
    match parse_list2 ps T one end_pred next (S (remaining p)) p with
    | LOk p' _ => remaining p' <= remaining p
    | LDiag => True
    | LOutOfFuel => False
    end.
Proof. exact parse_list2_progress. Qed.
Print Assumptions C16_parse_list2_progress.

Theorem C16_parse_sep_list_progress :
  forall (ps T : Type) (remaining : ps -> nat) (one : ps -> option (ps * T)) (cur_is_sep : ps -> bool)
         (consume_sep : ps -> option ps),
  (forall p p' r, one p = Some (p', r) -> remaining p' < remaining p) ->
  (forall p p', consume_sep p = Some p' -> remaining p' <= remaining p) ->
  forall p,
    match parse_sep_list ps T one cur_is_sep consume_sep (S (remaining p)) p with
    | LOk p' _ => remaining p' <= remaining p
    | LDiag => True
    | LOutOfFuel => False
    end.
Proof. exact parse_sep_list_progress. Qed.
Print Assumptions C16_parse_sep_list_progress.

(** the hypothesis is not idle: a step that succeeds without consuming never ends *)
Theorem C16_parse_list_stuck_step_refuted :
  forall fuel, parse_list nat unit (fun p => Some (p, tt)) (fun _ => false) fuel 0 [] = LOutOfFuel.
Proof. exact parse_list_stuck_step_refuted. Qed.
Print Assumptions C16_parse_list_stuck_step_refuted.

Example C16_example_sep_list :
  parse_sep_list (list nat) nat ex_one ex_is_sep ex_consume 8 [1; 100; 2; 100; 3; 7; 100]
  = LOk [7; 100] [1; 2; 3].
Proof. vm_compute. reflexivity. Qed.

(* ------------------------------------------------------------------ type-variable resolution *)

(** resolveType on any finite resolver and type, with fuel depth + entries*(deepest entry+1):
    a resolved type or the diagnostic "Recursive type is not supported." — never OutOfFuel. *)
Theorem C16_resolve_terminates : forall m t,
  exists r, resolve m t = r /\ (r = Cyclic \/ exists t', r = Resolved t').
Proof. exact resolve_terminates. Qed.
Print Assumptions C16_resolve_terminates.

Theorem C16_resolve_acyclic_ok : forall m t,
  acyclic m ->
  exists t', resolve m t = Resolved t' /\ forall w, occurs w t' -> ~ bound m w.
Proof. exact resolve_acyclic_ok. Qed.
Print Assumptions C16_resolve_acyclic_ok.

Theorem C16_resolve_cyclic_detected : forall m t w v,
  occurs w t -> walk m w v -> on_cycle m v -> resolve m t = Cyclic.
Proof. exact resolve_cyclic_detected. Qed.
Print Assumptions C16_resolve_cyclic_detected.

(** the diagnostic is never given without a cycle *)
Theorem C16_resolve_cyclic_sound : forall m t, resolve m t = Cyclic -> exists v, on_cycle m v.
Proof. exact resolve_cyclic_sound. Qed.
Print Assumptions C16_resolve_cyclic_sound.

(** the defect repaired by commit 9e9e4ad: without the path check T0 := func(T0) T1 is unfolded
    without end *)
Theorem C16_resolve_old_refuted : exists m t, forall fuel, resolve_old fuel m t = ROutOfFuel.
Proof. exact resolve_old_refuted. Qed.
Print Assumptions C16_resolve_old_refuted.

Example C16_example_resolve_acyclic :          (* T0 := []T1, T1 := int*T2 ; T2 free *)
  resolve [(0, TSlice (TVar 1)); (1, TTuple [TBase 0; TVar 2])] (TFunc [TVar 0; TVar 1])
  = Resolved (TFunc [TSlice (TTuple [TBase 0; TVar 2]); TTuple [TBase 0; TVar 2]]).
Proof. vm_compute. reflexivity. Qed.

Example C16_example_resolve_self_applied :     (* let f x = x x *)
  resolve [(0, TFunc [TVar 0; TVar 1])] (TVar 0) = Cyclic.
Proof. vm_compute. reflexivity. Qed.

Example C16_example_resolve_long_cycle :       (* T0 := []T1, T1 := T2, T2 := (T3, T0) reached from T5 := []T0 *)
  resolve [(5, TSlice (TVar 0)); (0, TSlice (TVar 1)); (1, TVar 2); (2, TTuple [TVar 3; TVar 0])] (TVar 5)
  = Cyclic.
Proof. vm_compute. reflexivity. Qed.

Example C16_example_on_cycle : on_cycle [(0, TFunc [TVar 0; TVar 1])] 0.
Proof.
  exists 0. split; [|apply walk_refl].
  split; [cbn; discriminate|]. cbn. eapply OFunc; [left; reflexivity|constructor].
Qed.

(* ------------------------------------------------------------------ the file driver *)

(** For every translation function (any parser/inference/emitter, with any state carried from
    file to file), any classification of arguments and destination function, any argument list,
    initial state and file system with any set of directories and unwritable paths. *)

Theorem C16_exit0_implies_all_written :
  forall (state : Type) (translate : state -> content -> option (state * content))
         (is_fo : path -> bool) (dest : path -> path)
         (args : list path) (st0 : state) (fs0 : fsys) (st' : state) (fs' : fsys),
  transpile_files state translate is_fo dest args st0 fs0 = Done st' fs' ->
  forall i f, nth_error args i = Some f -> is_fo f = true ->
  (forall j g, i < j -> nth_error args j = Some g -> is_fo g = true -> dest g <> dest f) ->
  exists st_i fs_i src st_i1 out,
    transpile_files state translate is_fo dest (firstn i args) st0 fs0 = Done st_i fs_i /\
    read fs_i f = Some src /\ translate st_i src = Some (st_i1, out) /\
    files fs' (dest f) = Some out.
Proof. exact exit0_implies_all_written. Qed.
Print Assumptions C16_exit0_implies_all_written.

Theorem C16_failure_writes_nothing_for_offender :
  forall (state : Type) (translate : state -> content -> option (state * content))
         (is_fo : path -> bool) (dest : path -> path)
         (args : list path) (st0 : state) (fs0 : fsys) (k : nat) (why : failure) (st_k : state) (fs_k : fsys),
  transpile_files state translate is_fo dest args st0 fs0 = Failed k why st_k fs_k ->
  exists f, nth_error args k = Some f /\
    transpile_files state translate is_fo dest (firstn k args) st0 fs0 = Done st_k fs_k /\
    step state translate is_fo dest st_k fs_k f = inr why /\
    ((forall g, In g (firstn k args) -> is_fo g = true -> dest g <> dest f) ->
     files fs_k (dest f) = files fs0 (dest f)).
Proof. exact failure_writes_nothing_for_offender. Qed.
Print Assumptions C16_failure_writes_nothing_for_offender.

Theorem C16_earlier_outputs_intact :
  forall (state : Type) (translate : state -> content -> option (state * content))
         (is_fo : path -> bool) (dest : path -> path)
         (args : list path) (st0 : state) (fs0 : fsys) (k : nat) (why : failure) (st_k : state) (fs_k : fsys),
  transpile_files state translate is_fo dest args st0 fs0 = Failed k why st_k fs_k ->
  (forall i f, i < k -> nth_error args i = Some f -> is_fo f = true ->
     (forall j g, i < j < k -> nth_error args j = Some g -> is_fo g = true -> dest g <> dest f) ->
     exists st_i fs_i src st_i1 out,
       transpile_files state translate is_fo dest (firstn i args) st0 fs0 = Done st_i fs_i /\
       read fs_i f = Some src /\ translate st_i src = Some (st_i1, out) /\
       files fs_k (dest f) = Some out)
  /\ (forall p, (forall g, In g (firstn k args) -> is_fo g = true -> dest g <> p) ->
                files fs_k p = files fs0 p).
Proof. exact earlier_outputs_intact. Qed.
Print Assumptions C16_earlier_outputs_intact.

Theorem C16_foi_writes_nothing :
  forall (state : Type) (translate : state -> content -> option (state * content))
         (is_fo : path -> bool) (dest : path -> path) st fs f st' fs',
  is_fo f = false -> step state translate is_fo dest st fs f = inl (st', fs') -> fs' = fs.
Proof. exact foi_writes_nothing. Qed.
Print Assumptions C16_foi_writes_nothing.

Theorem C16_exit_code_zero_iff : forall (state : Type) (r : run_result state),
  exit_code state r = 0 <-> exists st fs, r = Done st fs.
Proof. exact exit_code_zero_iff. Qed.
Print Assumptions C16_exit_code_zero_iff.

(** the defect repaired by commit 937260d: the result of sys.WriteFile was dropped — exit 0 with the
    requested file missing *)
Theorem C16_write_failure_exit0_old_refuted :
  exists (translate : unit -> content -> option (unit * content)) (fs0 : fsys) (args : list path),
    match transpile_files_old unit translate fo_is_fo fo_dest args tt fs0 with
    | Done _ fs' => fo_is_fo "x.fo"%string = true /\ In "x.fo"%string args /\
                    files fs' (fo_dest "x.fo"%string) = None
    | Failed _ _ _ _ => False
    end.
Proof. exact write_failure_exit0_old_refuted. Qed.
Print Assumptions C16_write_failure_exit0_old_refuted.

(** non-vacuity: a concrete run. translate: a file whose first byte is 0 is rejected, otherwise
    the output is the running count of accepted files followed by the source. *)
Definition ex_translate (n : nat) (src : content) : option (nat * content) :=
  match src with
  | 0 :: _ => None
  | _ => Some (S n, n :: src)
  end.
Definition ex_fs : fsys :=
  {| files := fun p => if String.eqb p "p.foi" then Some [7]
                       else if String.eqb p "d/a.fo" then Some [1; 1]
                       else if String.eqb p "b.fo" then Some [2]
                       else if String.eqb p "bad.fo" then Some [0; 9]
                       else if String.eqb p "gen_bad.go" then Some [42]      (* stale output of an earlier run *)
                       else None;
     is_dir := fun p => String.eqb p "gen_locked.go";
     unwritable := fun _ => false |}%string.
Definition ex_run (args : list path) := transpile_files nat ex_translate fo_is_fo fo_dest args 0 ex_fs.
Definition ex_look (r : run_result nat) (p : path) : option content :=
  match r with Done _ fs | Failed _ _ _ fs => files fs p end.

Example C16_example_paths :
  (fo_dest "d/a.fo", fo_dest "b.fo", fo_dest "/x/y/z.fo", fo_is_fo "p.foi", fo_is_fo "b.fo")%string
  = ("d/gen_a.go", "gen_b.go", "/x/y/gen_z.go", false, true)%string.
Proof. vm_compute. reflexivity. Qed.

Example C16_example_exit0 :
  let r := ex_run ["p.foi"; "d/a.fo"; "b.fo"]%string in
  (exit_code nat r, ex_look r "d/gen_a.go"%string, ex_look r "gen_b.go"%string, ex_look r "gen_p.go"%string)
  = (0, Some [1; 1; 1], Some [2; 2], None).
Proof. vm_compute. reflexivity. Qed.

Example C16_example_translate_failure :      (* the stale gen_bad.go is left alone, gen_a.go is complete, b.fo untouched *)
  let r := ex_run ["d/a.fo"; "bad.fo"; "b.fo"]%string in
  (exit_code nat r, ex_look r "d/gen_a.go"%string, ex_look r "gen_bad.go"%string, ex_look r "gen_b.go"%string)
  = (1, Some [0; 1; 1], Some [42], None).
Proof. vm_compute. reflexivity. Qed.

Example C16_example_write_failure :          (* destination is a directory *)
  ex_run ["locked.fo"]%string = Failed 0 ReadFail 0 ex_fs
  /\ transpile_files nat ex_translate fo_is_fo (fun _ => "gen_locked.go"%string) ["b.fo"]%string 0 ex_fs
     = Failed 0 WriteFail 0 ex_fs.
Proof. split; vm_compute; reflexivity. Qed.

(* ---- the bounded fixpoint loop of type inference (fc/infer.fo updateResolverN, Core/ResolverBound.v):
   1000 rounds / 100000 produced relations, then the diagnostic "Type inference does not converge".
   Termination for every resolver and every relation list; on converging inputs the bound changes nothing. *)
Theorem C16_type_inference_loop_terminates : forall later enum fuel st rels,
  (1002 <= N.of_nat fuel)%N -> ResolverBound.update_resolver_b later enum fuel st rels <> ResolverBound.BFuel.
Proof. exact ResolverBoundProofs.update_resolver_b_terminates. Qed.
Print Assumptions C16_type_inference_loop_terminates.

Theorem C16_type_inference_bound_changes_nothing_on_converging_input : forall later enum fuel st rels st' g r w,
  Resolver.update_resolver later enum fuel st rels = Resolver.LDone st' g ->
  ResolverBound.run_stats later enum fuel st rels = Some (r, w) ->
  (r <= ResolverBound.round_bound)%N -> (w <= ResolverBound.work_bound)%N ->
  ResolverBound.update_resolver_b later enum fuel st rels = ResolverBound.BDone st' g.
Proof. exact ResolverBoundProofs.update_resolver_b_agrees. Qed.
Print Assumptions C16_type_inference_bound_changes_nothing_on_converging_input.
