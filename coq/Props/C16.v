(** C16 — fc always terminates with either complete output or a diagnostic.   (PARTIAL)

    Full statement (not provable here: it quantifies over the whole recursive-descent parser,
    the inference and the emitter, which are not modelled, and over stack/heap exhaustion):

      for every argument list and file content fc terminates; it exits 0 only if every gen_*.go
      it was asked for has been completely written; otherwise it exits non-zero after printing a
      diagnostic, writes nothing for the offending file, and never hangs or dies of a Go run-time
      fatal error.

    Proved below, each over all inputs, for the faithful transcriptions of
      - the scanners of fc/wrapper.go (Front/Term.v): never out of fuel, progress, tokenizer
        termination, ParseSInterP / reinterpretEscape totality;
      - the list loops ParseList / ParseList2 / ParseSepList (Front/ListLoop.v);
      - type-variable resolution with the path check (Core/Resolve.v);
      - the file driver transpileFiles / transpileOne (Driver/FileDriver.v).
    Explored only (mutation fuzzing in harness/c16.go): everything between the token stream and
    the emitted text.

    Statements only; each is closed by [exact] of a lemma of the proof files. *)
From Coq Require Import List Arith Bool ZArith String.
From FoVerif Require Import Front.Term Front.TermProofs.
Import ListNotations.

(* ------------------------------------------------------------------ scanners *)

(** scanTokenAt with fuel length+1, at any position of any buffer: the EOF token exactly at the
    end; otherwise a diagnostic, or a non-empty token inside the buffer that begins at [pos]
    (at [pos+1] for $"…" / $`…`, whose token excludes the dollar sign). Never OutOfFuel. *)
Theorem C16_scan_total : forall buf pos,
  pos <= List.length buf ->
  (pos = List.length buf /\ scan_token_at (S (List.length buf)) buf pos = Tok EOF pos 0 PNone)
  \/ (pos < List.length buf /\
      match scan_token_at (S (List.length buf)) buf pos with
      | Tok ty b l _ => ty <> EOF /\ (b = pos \/ (ty = SINTERP /\ b = S pos)) /\ 0 < l /\
                        b + l <= List.length buf
      | Diag _ => True
      | OutOfFuel => False
      end).
Proof. exact scan_total. Qed.
Print Assumptions C16_scan_total.

(** nextToken from any position [p]: the EOF token, a diagnostic, or a non-SPACE token that ends
    strictly after [p]. *)
Theorem C16_next_token_progress : forall buf p,
  match next_token (S (List.length buf)) buf p with
  | Tok ty b l _ =>
    (ty = EOF /\ b = List.length buf /\ l = 0) \/
    (ty <> EOF /\ ty <> SPACE /\ p <= b /\ 0 < l /\ b + l <= List.length buf)
  | Diag _ => True
  | OutOfFuel => False
  end.
Proof. exact next_token_progress. Qed.
Print Assumptions C16_next_token_progress.

(** newTkz / tkzNext iterated from any position: EOF or a diagnostic within length+1 tokens. *)
Theorem C16_tokenize_terminates : forall buf p acc,
  match tokenize (S (List.length buf)) (S (List.length buf)) buf p acc with
  | TDone _ | TDiag _ _ => True
  | TOutOfFuel | TOutOfSteps => False
  end.
Proof. exact tokenize_terminates. Qed.
Print Assumptions C16_tokenize_terminates.

Theorem C16_parse_sinterp_total : forall buf,
  match parse_sinterp (S (List.length buf)) buf with
  | SOk _ _ | SDiag _ => True
  | SOutOfFuel => False
  end.
Proof. exact parse_sinterp_total. Qed.
Print Assumptions C16_parse_sinterp_total.

Theorem C16_reinterpret_escape_total : forall buf,
  reinterpret_escape (S (List.length buf)) buf <> EOutOfFuel.
Proof. exact reinterpret_escape_total. Qed.
Print Assumptions C16_reinterpret_escape_total.

(** the defect repaired by commit 454a055, kept as a refutation of the old scanner: without the
    end-of-buffer guard in the line-comment loop, a buffer that ends inside a line comment exhausts
    every amount of fuel. *)
Theorem C16_scan_space_old_eof_comment_refuted :
  exists buf, forall fuel, scan_space_old fuel buf 0 = OutOfFuel.
Proof. exact scan_space_old_eof_comment_refuted. Qed.
Print Assumptions C16_scan_space_old_eof_comment_refuted.

(** non-vacuity: concrete buffers *)
Definition b (s : string) : bytes := bytes_of_string s.

Example C16_example_stream :
  tokens (b "let x = 12 // c
") = TDone [(LET, 0, 3, PStr (b "let")); (IDENTIFIER, 4, 1, PStr (b "x")); (EQ, 6, 1, PStr (b "="));
            (INT_IMM, 8, 2, PInt 12); (EOL, 15, 1, PStr [10]); (EOF, 16, 0, PNone)].
Proof. vm_compute. reflexivity. Qed.

Example C16_example_comment_at_eof :           (* hung before 454a055 *)
  tokens (b "x //c") = TDone [(IDENTIFIER, 0, 1, PStr (b "x")); (EOF, 5, 0, PNone)].
Proof. vm_compute. reflexivity. Qed.

Example C16_example_number_at_eof :            (* buf[pos+i] past the end: a diagnostic *)
  tokens (b "x 12") = TDiag [(IDENTIFIER, 0, 1, PStr (b "x"))] idx_msg.
Proof. vm_compute. reflexivity. Qed.

Example C16_example_unclosed_comment :
  scan_token_at 5 (b "/* x") 0 = Diag "No comment end found.".
Proof. vm_compute. reflexivity. Qed.

Example C16_example_unclosed_string :
  scan_token_at 5 (b """abc") 0 = Diag "unclosed string literal".
Proof. vm_compute. reflexivity. Qed.

Example C16_example_sinterp_token :            (* begins after the dollar sign *)
  scan_token_at 7 (b "$""a{x}""") 0 = Tok SINTERP 1 6 (PStr (b "a{x}")).
Proof. vm_compute. reflexivity. Qed.

Example C16_example_sinterp :
  parse_sinterp 20 (b "a{x}b\{c\}100%{yy}") = SOk (b "a%sb{c}100%%%s") [b "x"; b "yy"].
Proof. vm_compute. reflexivity. Qed.

Example C16_example_sinterp_open :
  parse_sinterp 5 (b "a{xy") = SDiag "Open brace but no close brace".
Proof. vm_compute. reflexivity. Qed.

Example C16_example_sinterp_brace_last :
  parse_sinterp 3 (b "a{") = SDiag idx_msg.
Proof. vm_compute. reflexivity. Qed.
