(** C02 — placeholder, statements follow. *)
From FoVerif Require Import Core.Unify Core.UnifyProofs Core.Infer.
