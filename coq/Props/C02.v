(** C02 — inferred Go signatures are the principal Folang types, mapped as documented.
    Statements only; each is closed by [exact] of a lemma of Core/UnifyProofs.v or Core/InferProofs.v.

    What is proved here is about the *reference* inference [infer_fun] of Core/Infer.v
    (constraint generation + Robinson unification + first-occurrence numbering + [sig_to_go]).
    That fc's own inference (fc/infer.fo, a different algorithm) emits the same signatures is
    established by correspondence on generated programs (harness/c02*.go), not by proof. *)
From Coq Require Import String List Arith.
From FoVerif Require Import Core.Unify Core.UnifyProofs Core.Infer Core.InferProofs.
Import ListNotations.

(* ------------------------------------------------------------------ unification *)
Theorem C02_unify_sound : forall n es sg, unify n es = Ok sg -> solves sg es.
Proof. exact unify_sound. Qed.
Print Assumptions C02_unify_sound.

(** most general: every unifier [th] factors through the computed one (th o sg = th) *)
Theorem C02_unify_mgu : forall n es sg, unify n es = Ok sg ->
  forall th, unifies th es -> forall t, app th (app_seq sg t) = app th t.
Proof. exact unify_mgu. Qed.
Print Assumptions C02_unify_mgu.

Theorem C02_unify_complete : forall n es, unify n es = Clash -> forall th, ~ unifies th es.
Proof. exact unify_complete. Qed.
Print Assumptions C02_unify_complete.

Theorem C02_unify_terminates : forall es, exists n, forall m, n <= m -> unify m es <> Fuel.
Proof. exact unify_fuel_sufficient. Qed.
Print Assumptions C02_unify_terminates.

(* ------------------------------------------------------------------ constraint generation *)
(** every solution of the generated constraints gives a derivation *)
Theorem C02_gen_sound : forall D e G n t es n', gen D G e n = Some (t, es, n') ->
  forall th, unifies th es -> has D (menv th G) e (app th t).
Proof. exact gen_sound. Qed.
Print Assumptions C02_gen_sound.

(** every derivation extends (on the fresh variables) to a solution of the generated constraints *)
Theorem C02_gen_complete : forall D, decls_ok D -> forall e G n th t',
  has D (menv th G) e t' -> env_below n G ->
  exists t es n' th', gen D G e n = Some (t, es, n') /\ n <= n' /\ agree n th th' /\
                      unifies th' es /\ app th' t = t' /\ below n' t /\ eqs_below n' es.
Proof. exact gen_complete. Qed.
Print Assumptions C02_gen_complete.

(* ------------------------------------------------------------------ top-level functions *)
(** the inferred scheme, and every substitution instance of it, is a typing of the function *)
Theorem C02_infer_sound : forall D fuel fd k ptys rty,
  fun_ok fd -> infer_fun D fuel fd = Inferred k ptys rty ->
  forall rho, has_fun D fd (map (app rho) ptys) (app rho rty).
Proof. exact infer_sound. Qed.
Print Assumptions C02_infer_sound.

(** principal: every typing of the function is a substitution instance of the inferred scheme *)
Theorem C02_infer_principal : forall D, decls_ok D -> forall fuel fd k ptys rty,
  fun_ok fd -> infer_fun D fuel fd = Inferred k ptys rty ->
  forall ptys' rty', has_fun D fd ptys' rty' ->
  exists rho, ptys' = map (app rho) ptys /\ rty' = app rho rty.
Proof. exact infer_principal. Qed.
Print Assumptions C02_infer_principal.

(** a typable function is never answered ILLTYPED, and enough fuel always exists *)
Theorem C02_infer_complete : forall D, decls_ok D -> forall fuel fd ptys' rty',
  fun_ok fd -> has_fun D fd ptys' rty' -> infer_fun D fuel fd <> IllTyped.
Proof. exact infer_complete. Qed.
Print Assumptions C02_infer_complete.

Theorem C02_infer_terminates : forall D fd, exists n, forall m, n <= m -> infer_fun D m fd <> OutOfFuel.
Proof. exact infer_fuel_sufficient. Qed.
Print Assumptions C02_infer_terminates.

(** type parameters are T0..T(k-1), numbered by first occurrence in the parameter list, then the result *)
Theorem C02_numbering_canonical : forall D fuel fd k ptys rty,
  infer_fun D fuel fd = Inferred k ptys rty -> fo_vars_list (ptys ++ [rty]) [] = seq 0 k.
Proof. exact numbering_canonical. Qed.
Print Assumptions C02_numbering_canonical.

(** if the function without an annotation on parameter i already gets the ground type [a] for it,
    annotating [x : a] leaves the inferred scheme (hence the emitted signature) unchanged *)
Theorem C02_annotation_erasure : forall D, decls_ok D -> forall fd i x a fuel fuel' k P r,
  fun_ok fd -> below 0 a ->
  nth_error (f_params fd) i = Some (x, None) ->
  infer_fun D fuel fd = Inferred k P r ->
  nth_error P i = Some a ->
  infer_fun D fuel' (annotate fd i a) <> OutOfFuel ->
  infer_fun D fuel' (annotate fd i a) = Inferred k P r.
Proof. exact annotation_erasure. Qed.
Print Assumptions C02_annotation_erasure.

(** two references to one generic function are instantiated with disjoint fresh variables *)
Theorem C02_instances_independent : forall D, decls_ok D ->
  forall p s G1 args1 n1 t1 es1 n1' G2 args2 n2 t2 es2 n2',
  prim_scheme D p = Some s ->
  gen D G1 (XPrim p args1) n1 = Some (t1, es1, n1') ->
  gen D G2 (XPrim p args2) n2 = Some (t2, es2, n2') ->
  n1' <= n2 ->
  forall u1 u2 v, In u1 (sres s :: sargs s) -> In u2 (sres s :: sargs s) ->
    occurs v (shift n1 u1) = true -> occurs v (shift n2 u2) = true -> False.
Proof. exact instances_independent. Qed.
Print Assumptions C02_instances_independent.

(** the fresh-variable counter only grows, so a later reference always starts above an earlier one *)
Theorem C02_gen_counter_monotone : forall D e G n t es n', gen D G e n = Some (t, es, n') -> n <= n'.
Proof. exact gen_counter. Qed.
Print Assumptions C02_gen_counter_monotone.

(* ------------------------------------------------------------------ non-vacuity *)
Local Open Scope string_scope.

(** declarations: 0 = record Rec {RX:int; RS:string}; 1 = record Box<T> {BV:T; BN:int};
    2 = union Opt<T> = Som of T | Non.
    globals: 0 = slice.Map, 1 = slice.Head, 2 = frt.Fst, 3 = idf : T -> T *)
Definition exD : decls :=
  mkDecls
    [DRecord 0 [tint; tstring]; DRecord 1 [TVar 0; tint]; DUnion 1 [Some (TVar 0); None]]
    [mkScheme 2 [tfun [TVar 0] (TVar 1); tslice (TVar 0)] (tslice (TVar 1));
     mkScheme 1 [tslice (TVar 0)] (TVar 0);
     mkScheme 2 [ttuple [TVar 0; TVar 1]] (TVar 0);
     mkScheme 1 [TVar 0] (TVar 0)].
Definition exNames (i:nat) : string := match i with 0 => "Rec" | 1 => "Box" | _ => "Opt" end.

Definition show (name:string) (pn:list string) (fd:fundef) : string :=
  match infer_fun exD 1000 fd with
  | Inferred k p r => sig_to_go exNames name pn k p r
  | IllTyped => "ILLTYPED"
  | OutOfFuel => "FUEL"
  end.

(** let app f x = f x *)
Definition ex_app := mkFun [(0, None); (1, None)] (XCallP 0 [XVar 1]).
Example C02_example_app :
  infer_fun exD 1000 ex_app = Inferred 2 [tfun [TVar 0] (TVar 1); TVar 0] (TVar 1).
Proof. vm_compute. reflexivity. Qed.
Example C02_example_app_go :
  show "app" ["f"; "x"] ex_app = "func app[T0 any, T1 any](f func (T0) T1, x T0) T1".
Proof. vm_compute. reflexivity. Qed.

(** let add10 a = a + 10   (the typed operand determines a) *)
Example C02_example_add10 :
  show "add10" ["a"] (mkFun [(0, None)] (XPrim PArith [XVar 0; XLit LInt])) = "func add10(a int) int".
Proof. vm_compute. reflexivity. Qed.

(** let ika a b = a + b   (nothing determines the type: generic, as the documentation says) *)
Example C02_example_ika :
  show "ika" ["a"; "b"] (mkFun [(0, None); (1, None)] (XPrim PArith [XVar 0; XVar 1]))
  = "func ika[T0 any](a T0, b T0) T0".
Proof. vm_compute. reflexivity. Qed.

(** let chain f xs = let ys = slice.Map f xs in let (a, b) = slice.Head ys in (b, a) *)
Example C02_example_chain :
  show "chain" ["f"; "xs"]
    (mkFun [(0, None); (1, None)]
       (XLet 2 (XPrim (PGlobal 0) [XVar 0; XVar 1])
          (XLetTup [Some 3; Some 4] (XPrim (PGlobal 1) [XVar 2])
             (XPrim (PTuple 2) [XVar 4; XVar 3]))))
  = "func chain[T0 any, T1 any, T2 any](f func (T0) frt.Tuple2[T1, T2], xs []T0) frt.Tuple2[T2, T1]".
Proof. vm_compute. reflexivity. Qed.

(** numbering follows the parameter list, not the order of appearance in the result:
    let flip x g = (g x, x) *)
Example C02_example_numbering :
  show "flip" ["x"; "g"]
    (mkFun [(0, None); (1, None)] (XPrim (PTuple 2) [XCallP 1 [XVar 0]; XVar 0]))
  = "func flip[T0 any, T1 any](x T0, g func (T0) T1) frt.Tuple2[T1, T0]".
Proof. vm_compute. reflexivity. Qed.

(** two instantiations of one generic function in one body: let two x y = (idf x, idf (y + 1)) *)
Example C02_example_two_instances :
  show "two" ["x"; "y"]
    (mkFun [(0, None); (1, None)]
       (XPrim (PTuple 2) [XPrim (PGlobal 3) [XVar 0];
                          XPrim (PGlobal 3) [XPrim PArith [XVar 1; XLit LInt]]]))
  = "func two[T0 any](x T0, y int) frt.Tuple2[T0, int]".
Proof. vm_compute. reflexivity. Qed.

(** records, generic records, unions, lambdas, partial application:
    let mk a xs = ({BV=a; BN=slice.Head xs}, Som {RX=1; RS="s"}, slice.Map (fun x -> x + 1) xs) *)
Example C02_example_records :
  show "mk" ["a"; "xs"]
    (mkFun [(0, None); (1, None)]
       (XPrim (PTuple 3)
          [XPrim (PRecord 1) [XVar 0; XPrim (PGlobal 1) [XVar 1]];
           XPrim (PCtor 2 0) [XPrim (PRecord 0) [XLit LInt; XLit LString]];
           XPrim (PGlobal 0) [XLam [2] (XPrim PArith [XVar 2; XLit LInt]); XVar 1]]))
  = "func mk[T0 any](a T0, xs []int) frt.Tuple3[Box[T0], Opt[Rec], []int]".
Proof. vm_compute. reflexivity. Qed.

(** annotation erasure on a concrete function: let f (a:int) b = if a < b then a else b *)
Example C02_example_erasure :
  let body := XPrim PIf [XPrim PCmp [XVar 0; XVar 1]; XVar 0; XVar 1] in
  infer_fun exD 1000 (mkFun [(0, Some tint); (1, None)] body) = Inferred 0 [tint; tint] tint /\
  infer_fun exD 1000 (annotate (mkFun [(0, Some tint); (1, None)] body) 1 tint) = Inferred 0 [tint; tint] tint.
Proof. vm_compute. split; reflexivity. Qed.

(** an ill-typed function is answered ILLTYPED: let bad (a:int) = a + "s";  and the occurs check: let w f = f f *)
Example C02_example_illtyped :
  show "bad" ["a"] (mkFun [(0, Some tint)] (XPrim PArith [XVar 0; XLit LString])) = "ILLTYPED" /\
  show "w" ["f"] (mkFun [(0, None)] (XCallP 0 [XVar 0])) = "ILLTYPED".
Proof. vm_compute. split; reflexivity. Qed.

(** the example declarations satisfy the hypothesis of the theorems *)
Example C02_example_decls_ok : decls_ok exD.
Proof. unfold decls_ok, exD, scheme_ok; cbn. repeat constructor. Qed.

(* ================================================================== fc's own resolver (fc/infer.fo, transcribed in Core/Resolver.v) *)
From FoVerif Require Import Core.Resolver Core.ResolverProofs.

(** For every comparison [later] of variable names and every enumeration order [enum] of dict.Keys
    that keeps membership: if the loop of updateResolver ended without silently ignoring a clash
    (flag false) and every variable resolves (no cyclic type), the induced substitution unifies
    every equation. *)
Theorem C02_resolver_sound : forall later enum, (forall l x, In x (enum l) <-> In x l) ->
  forall n m es st,
  solve later enum n es = SSolved st false ->
  (forall v, exists t, resolve m [] st v = ROk t) ->
  unifies (induced m st) es.
Proof. exact resolver_sound. Qed.
Print Assumptions C02_resolver_sound.

(** On unifiable well-formed equations the resolver never panics and never ignores a clash, and every
    unifier factors through what it resolves (most general). *)
Theorem C02_resolver_most_general : forall later enum, (forall l x, In x (enum l) <-> In x l) ->
  forall n es th,
  (forall l r, In (l,r) es -> wf l = true /\ wf r = true) -> unifies th es ->
  solve later enum n es = SFuel \/
  exists st, solve later enum n es = SSolved st false /\
    forall m v t, resolve m [] st v = ROk t -> app th t = th v.
Proof. exact resolver_most_general. Qed.
Print Assumptions C02_resolver_most_general.

(** Agreement with the reference (Robinson) unification: where [unify] answers [sg], the resolver's
    substitution also solves the equations and the two are instances of each other - for every
    enumeration order, so the result is order-independent up to renaming of the remaining variables. *)
Theorem C02_resolver_agrees_with_unify : forall later enum, (forall l x, In x (enum l) <-> In x l) ->
  forall k es sg n st g m,
  (forall l r, In (l,r) es -> wf l = true /\ wf r = true) ->
  unify k es = Ok sg ->
  solve later enum n es = SSolved st g ->
  (forall v, exists t, resolve m [] st v = ROk t) ->
  g = false /\
  unifies (induced m st) es /\
  (forall v, app_seq sg (induced m st v) = app_seq sg (TVar v)) /\
  (forall t, app (induced m st) (app_seq sg t) = app (induced m st) t).
Proof. exact resolver_agrees_with_unify. Qed.
Print Assumptions C02_resolver_agrees_with_unify.

(** PARTIAL: the two hypotheses "the loop ended" and "every variable resolves" are not discharged.
    The full statements would be (not proved):
      - for unifiable well-formed equations there is a fuel bound for [update_resolver]
        (argument: with a unifier th fixed, every relation produced in a pass either has a strictly
        smaller size of th(source) than the relation it came from, or the pass merged two classes /
        gave a class its first structure, which happens at most 2 * #variables times);
      - for unifiable equations [resolve] never answers [RCycle] (a cycle would give a type properly
        containing itself under th).
    Without unifiability both fail: *)
Definition C02_resolver_terminates_on_unifiable_statement : Prop :=
  forall later enum, (forall l x, In x (enum l) <-> In x l) ->
  forall es th, (forall l r, In (l,r) es -> wf l = true /\ wf r = true) -> unifies th es ->
  exists n, solve later enum n es <> SFuel /\
  forall st g, solve later enum n es = SSolved st g -> exists m, forall v, exists t, resolve m [] st v = ROk t.

(** the loop of updateResolver diverges on T1 = []T1, T1 = [][]T1 (every fuel is exhausted) *)
Theorem C02_update_resolver_can_diverge : forall n, solve Nat.ltb enum_id n es_div = SFuel.
Proof. exact update_resolver_can_diverge. Qed.
Print Assumptions C02_update_resolver_can_diverge.

(** refuted without the no-ignored-clash hypothesis: compositeTp ignores a clash of two base types *)
Theorem C02_resolver_sound_without_flag_refuted :
  exists es st, (forall th, ~ unifies th es) /\
    solve Nat.ltb enum_id 10 es = SSolved st true /\
    (forall v, exists t, resolve 10 [] st v = ROk t) /\
    ~ unifies (induced 10 st) es.
Proof. exact resolver_sound_without_flag_refuted. Qed.
Print Assumptions C02_resolver_sound_without_flag_refuted.

Example C02_example_resolver_panic : solve Nat.ltb enum_id 10 [(TVar 0, tint); (TVar 0, tslice tint)] = SPanic.
Proof. exact resolver_panics_on_shape_clash. Qed.

(** the signature of  let chain f xs = ...  computed with fc's resolver instead of Robinson unification *)
Example C02_example_resolver_chain :
  infer_fun_resolver Nat.ltb enum_id exD 100
    (mkFun [(0, None); (1, None)]
       (XLet 2 (XPrim (PGlobal 0) [XVar 0; XVar 1])
          (XLetTup [Some 3; Some 4] (XPrim (PGlobal 1) [XVar 2])
             (XPrim (PTuple 2) [XVar 4; XVar 3]))))
  = RInferred 3 [tfun [TVar 0] (ttuple [TVar 1; TVar 2]); tslice (TVar 0)] (ttuple [TVar 2; TVar 1]) false.
Proof. vm_compute. reflexivity. Qed.

(* ================================================================== the bounded loop of updateResolver (fc/infer.fo since cc92c84) *)
From Coq Require Import NArith.
From FoVerif Require Import Core.ResolverBound Core.ResolverBoundProofs.

(** termination: with fuel >= 1002 the bounded loop never runs out of fuel - for every resolver, every
    relation list, every enumeration order and name comparison (the measure is the round counter) *)
Theorem C02_bounded_resolver_terminates : forall later enum fuel st rels,
  (1002 <= N.of_nat fuel)%N -> update_resolver_b later enum fuel st rels <> BFuel.
Proof. exact update_resolver_b_terminates. Qed.
Print Assumptions C02_bounded_resolver_terminates.

(** agreement: whenever the unbounded loop ends within 1000 further rounds and 100000 produced
    relations, the bounded loop returns the same resolver (and the same ignored-clash flag) *)
Theorem C02_bounded_resolver_agrees : forall later enum fuel st rels st' g r w,
  update_resolver later enum fuel st rels = LDone st' g ->
  run_stats later enum fuel st rels = Some (r, w) ->
  (r <= round_bound)%N -> (w <= work_bound)%N ->
  update_resolver_b later enum fuel st rels = BDone st' g.
Proof. exact update_resolver_b_agrees. Qed.
Print Assumptions C02_bounded_resolver_agrees.

(** the statistics exist for every run of the unbounded loop that ends *)
Theorem C02_run_stats_defined : forall later enum fuel st rels st' g,
  update_resolver later enum fuel st rels = LDone st' g ->
  exists r w, run_stats later enum fuel st rels = Some (r, w).
Proof. exact run_stats_defined. Qed.
Print Assumptions C02_run_stats_defined.

(** x = (x, x), x = ((x, x), (x, x)): the relation list doubles in every pass (3, 6, 12, ... 384),
    so a bound on the rounds alone is not enough; the bounded loop reports it, and the slice cycle too *)
Example C02_doubling_relations_grow :
  map (fun k => option_map (@length rel) (rels_after Nat.ltb enum_id k [] rels_dbl)) [1; 2; 3; 4; 5; 6; 7; 8]
  = [Some 3; Some 6; Some 12; Some 24; Some 48; Some 96; Some 192; Some 384].
Proof. exact doubling_relations_double. Qed.
Example C02_bounded_loop_reports_doubling : bsolve_rels Nat.ltb enum_id bound_fuel rels_dbl = BSNoConv.
Proof. exact bounded_loop_reports_doubling. Qed.
Example C02_bounded_loop_reports_slices : bsolve_rels Nat.ltb enum_id bound_fuel rels_slc = BSNoConv.
Proof. exact bounded_loop_reports_slices. Qed.
