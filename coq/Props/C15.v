(** C15 — type expressions map to Go types by the documented grammar.
    Statements only; each is closed by [exact] of a lemma of Front/TypeGrammarProofs.v.

    [parse_type env ts] is the 4-level recursive-descent type parser of fc/parser.fo over tokens
    (env = the scope's type factories: dotted name -> Go name, number of type parameters),
    [print_type] prints with minimal parentheses, [dprint 0 d] prints a decorated type [d] whose nodes
    carry any number of redundant parenthesis pairs, [render env] is FTypeToGo.
    [wf env t]: what the parser can produce (tuples / function types have >= 2 components, the last
    component of a function type is its result; names are registered with the written arity);
    [stops 0 rest]: the token after the type is not one that continues a type (-> * . <). *)
From Coq Require Import List String Ascii Arith Bool.
From FoVerif Require Import Front.TypeGrammar Front.TypeGrammarProofs.
Import ListNotations.

(** Round trip at ANY depth: parsing the minimal spelling of a well-formed type gives back exactly that
    type and consumes exactly its tokens. *)
Theorem C15_parse_print :
  forall env t rest, wf env t = true -> stops 0 rest ->
    parse_type env (print_type t ++ rest) = Some (t, rest).
Proof. exact parse_print. Qed.
Print Assumptions C15_parse_print.

(** Parentheses only group: any number of redundant pairs around any nodes changes nothing. *)
Theorem C15_parse_redundant :
  forall env d rest, dwf env d = true -> stops 0 rest ->
    parse_type env (dprint 0 d ++ rest) = Some (erase d, rest).
Proof. exact parse_dprint. Qed.
Print Assumptions C15_parse_redundant.

Theorem C15_redundant_parens_ignored :
  forall env d rest, dwf env d = true -> stops 0 rest ->
    parse_type env (dprint 0 d ++ rest) = parse_type env (print_type (erase d) ++ rest).
Proof. exact redundant_parens_ignored. Qed.
Print Assumptions C15_redundant_parens_ignored.

Theorem C15_outer_parens_ignored :
  forall env t k rest, wf env t = true -> stops 0 rest ->
    parse_type env (parens k (print_type t) ++ rest) = Some (t, rest).
Proof. exact outer_parens_ignored. Qed.
Print Assumptions C15_outer_parens_ignored.

(** [] binds tighter than * (the code's and the property's reading; docs/specs/note.md says the
    opposite for []T*U — reported). *)
Theorem C15_slice_tighter_than_tuple :
  forall env a b rest, wf env a = true -> wf env b = true -> stops 0 rest ->
    parse_type env (TLB :: TRB :: print_at 2 a ++ TAster :: print_at 2 b ++ rest)
      = Some (FTuple [FSlice a; b], rest) /\
    parse_type env (print_at 2 a ++ TAster :: TLB :: TRB :: print_at 2 b ++ rest)
      = Some (FTuple [a; FSlice b], rest) /\
    parse_type env (TLB :: TRB :: TLP :: print_at 2 a ++ TAster :: print_at 2 b ++ TRP :: rest)
      = Some (FSlice (FTuple [a; b]), rest).
Proof. exact slice_tighter_than_tuple. Qed.
Print Assumptions C15_slice_tighter_than_tuple.

(** A->B->C is one function type with targets A, B, C; nesting needs parentheses ... *)
Theorem C15_arrow_flat_and_nested :
  forall env a b c0 rest,
    wf env a = true -> wf env b = true -> wf env c0 = true -> stops 0 rest ->
    parse_type env (print_at 1 a ++ TArrow :: print_at 1 b ++ TArrow :: print_at 1 c0 ++ rest)
      = Some (FFunc [a; b; c0], rest) /\
    parse_type env (print_at 1 a ++ TArrow :: TLP :: print_at 1 b ++ TArrow :: print_at 1 c0 ++ TRP :: rest)
      = Some (FFunc [a; FFunc [b; c0]], rest) /\
    parse_type env (TLP :: print_at 1 a ++ TArrow :: print_at 1 b ++ TRP :: TArrow :: print_at 1 c0 ++ rest)
      = Some (FFunc [FFunc [a; b]; c0], rest).
Proof. exact arrow_flat_and_nested. Qed.
Print Assumptions C15_arrow_flat_and_nested.

(** ... and ONLY parentheses nest: from ANY token list without '(' — whatever it is — the parser never
    produces a function type inside a function type, nor a function or tuple type inside a tuple or
    slice. *)
Theorem C15_arrow_nests_only_through_parens :
  forall env ts t r, no_lp ts -> parse_type env ts = Some (t, r) -> paren_free t = true.
Proof. exact arrow_nests_only_through_parens. Qed.
Print Assumptions C15_arrow_nests_only_through_parens.

(** The documented mapping, constructor by constructor. *)
Local Open Scope string_scope.
Theorem C15_render_by_cases : forall env,
  render env FInt = "int" /\ render env FString = "string" /\ render env FBool = "bool" /\
  render env FAny = "any" /\ render env FFloat = "float64" /\ render env FUnit = "" /\
  (forall e, render env (FSlice e) = "[]" ++ render env e) /\
  (forall a b, render env (FTuple [a; b]) =
               "frt.Tuple2[" ++ (render env a ++ ", " ++ render env b) ++ "]") /\
  (forall a b c0, render env (FTuple [a; b; c0]) =
               "frt.Tuple3[" ++ (render env a ++ ", " ++ render env b ++ ", " ++ render env c0) ++ "]") /\
  (forall l, render env (FTuple l) =
             "frt.Tuple" ++ dec (List.length l) ++ "[" ++ String.concat ", " (map (render env) l) ++ "]") /\
  (forall args r, render env (FFunc (args ++ [r])%list) =
     "func (" ++ String.concat "," (map (render env) args) ++ ")" ++
     (if is_unit r then "" else " " ++ render env r)) /\
  (forall a b r, is_unit r = false -> render env (FFunc [a; b; r]) =
     "func (" ++ (render env a ++ "," ++ render env b) ++ ")" ++ " " ++ render env r) /\
  (forall a, render env (FFunc [a; FUnit]) = "func (" ++ render env a ++ ")" ++ "") /\
  (forall r, is_unit r = false -> render env (FFunc [FUnit; r]) = "func ()" ++ " " ++ render env r) /\
  (forall parts, render env (FNamed parts []) = go_name env parts) /\
  (forall parts a l, render env (FNamed parts (a :: l)) =
     go_name env parts ++ "[" ++ String.concat ", " (map (render env) (a :: l)) ++ "]").
Proof. exact render_by_cases. Qed.
Print Assumptions C15_render_by_cases.

(** render_injective (on unit-free types) is NOT proved.  Unconditionally it is false: names need lexical
    side conditions (a user type called float64 renders like float). The harness checks injectivity
    dynamically over everything it enumerates. *)
Theorem C15_render_injective_needs_name_conditions :
  exists (env : string -> option (string * nat)) t1 t2,
    wf env t1 = true /\ wf env t2 = true /\ t1 <> t2 /\ render env t1 = render env t2.
Proof. exact render_injective_needs_name_conditions. Qed.
Print Assumptions C15_render_injective_needs_name_conditions.

(** non-vacuity *)
Definition ex_env (n : string) : option (string * nat) :=
  if String.eqb n "ext.Box" then Some ("ext.Box", 1)
  else if String.eqb n "Pair" then Some ("ext.Pair", 2)
  else if String.eqb n "G" then Some ("G", 1) else None.

Definition ex_t : ftype :=
  FFunc [FNamed ["ext"; "Box"] [FTuple [FSlice FInt; FFloat; FFunc [FUnit; FString]]];
         FSlice (FFunc [FInt; FUnit]);
         FNamed ["Pair"] [FAny; FNamed ["G"] [FBool]]]%string.

Example C15_example_wf : wf ex_env ex_t = true.
Proof. vm_compute. reflexivity. Qed.
Example C15_example_roundtrip :
  parse_type ex_env (app (print_type ex_t) [TOther "="]) = Some (ex_t, [TOther "="]).
Proof. vm_compute. reflexivity. Qed.
Example C15_example_render :
  render ex_env ex_t =
  "func (ext.Box[frt.Tuple3[[]int, float64, func () string]],[]func (int)) ext.Pair[any, G[bool]]"%string.
Proof. vm_compute. reflexivity. Qed.
(** string -> (() -> string) * bool  (from the repository's tests) *)
Example C15_example_test_annotation :
  parse_type ex_env [TId "string"; TArrow; TLP; TLP; TRP; TArrow; TId "string"; TRP; TAster; TId "bool"]%string
  = Some (FFunc [FString; FTuple [FFunc [FUnit; FString]; FBool]], []).
Proof. vm_compute. reflexivity. Qed.
Example C15_example_decorated :
  let d := DFunc 1 [DLeaf 2 FInt; DTuple 0 [DSlice 1 (DLeaf 0 FInt); DFunc 0 [DLeaf 0 FInt; DLeaf 1 FUnit]]] in
  dwf ex_env d = true /\
  parse_type ex_env (dprint 0 d) = Some (FFunc [FInt; FTuple [FSlice FInt; FFunc [FInt; FUnit]]], []).
Proof. vm_compute. split; reflexivity. Qed.
(** rejected: an unknown name, a wrong number of type arguments, an unclosed parenthesis *)
Example C15_example_rejects :
  parse_type ex_env [TId "Nope"]%string = None /\
  parse_type ex_env [TId "G"; TLt; TId "int"; TComma; TId "int"; TGt]%string = None /\
  parse_type ex_env [TLP; TId "int"]%string = None.
Proof. vm_compute. repeat split; reflexivity. Qed.
