(** C08 — binary operators group by one fixed table and associate to the left.
    Statements only. The chain-level theorem holds for operands of ANY type (atoms, applications,
    parenthesised expressions, not-terms: whatever parseTerm returns). *)
From Coq Require Import List Arith.
From FoVerif Require Import Front.BinOp Front.BinOpProofs.
Import ListNotations.

(** For every chain a0 o1 a1 … on ak of any length: climbing (with the fuel the model uses — never
    out of fuel) returns a tree that is well-grouped by the published table, whose in-order
    traversal is the chain, and it is the only such tree. *)
Theorem C08_grouping_is_table_driven :
  forall (atom : Type) (a0 : atom) (r : list (optok * atom)),
  exists t, parse_chain a0 r = Some t /\ wg t /\ first_atom t = a0 /\ tail_chain t = r /\
  forall t', wg t' -> first_atom t' = a0 -> tail_chain t' = r -> t' = t.
Proof. exact parse_chain_correct. Qed.
Print Assumptions C08_grouping_is_table_driven.

Theorem C08_equal_rank_associates_left :
  forall (atom : Type) (a b c : atom) o1 o2, rank o1 = rank o2 ->
  parse_chain a [(o1, b); (o2, c)] = Some (Node o2 (Node o1 (Leaf a) (Leaf b)) (Leaf c)).
Proof. exact equal_rank_assoc_left. Qed.
Print Assumptions C08_equal_rank_associates_left.

Theorem C08_higher_rank_binds_tighter :
  forall (atom : Type) (a b c : atom) o1 o2, rank o1 < rank o2 ->
  parse_chain a [(o1, b); (o2, c)] = Some (Node o1 (Leaf a) (Node o2 (Leaf b) (Leaf c))).
Proof. exact higher_rank_binds_tighter. Qed.
Print Assumptions C08_higher_rank_binds_tighter.

(** the published table, as the property states it (from loosest) *)
Example C08_published_table :
  map rank [PIPE; AMPAMP; BARBAR; LT; GT; LE; GE; EQ; BRACKET; PLUS; MINUS; ASTER; SLASH]
  = [1; 2; 2; 2; 2; 2; 2; 3; 3; 4; 4; 5; 5].
Proof. reflexivity. Qed.

(** token level (model of parseExprWithPrec/parseTerm/parseAtomList/parseAtom): concrete instances of
    the remaining clauses of the property; the general token-level statement is validated by the
    exhaustive correspondence, not proved (see DESIGN.md) *)
Example C08_parens_preserved :   (* (a + b) * c *)
  parse_tokens [TLParen; TId 0; TOp PLUS; TId 1; TRParen; TOp ASTER; TId 2]
  = POk (EBin ASTER (EBin PLUS (EAtom 0) (EAtom 1)) (EAtom 2)) [].
Proof. vm_compute. reflexivity. Qed.
Example C08_application_binds_tighter :   (* f a + g b c *)
  parse_tokens [TId 0; TId 1; TOp PLUS; TId 2; TId 3; TId 4]
  = POk (EBin PLUS (EApp (EAtom 0) [EAtom 1]) (EApp (EAtom 2) [EAtom 3; EAtom 4])) [].
Proof. vm_compute. reflexivity. Qed.
Example C08_not_takes_following_application :   (* not f a && b *)
  parse_tokens [TNot; TId 0; TId 1; TOp AMPAMP; TId 2]
  = POk (EBin AMPAMP (ENot (EApp (EAtom 0) [EAtom 1])) (EAtom 2)) [].
Proof. vm_compute. reflexivity. Qed.
Example C08_newline_before_operator_irrelevant :
  parse_tokens [TId 0; TEOL; TOp PIPE; TId 1; TEOL; TEOL; TOp PIPE; TId 2]
  = parse_tokens [TId 0; TOp PIPE; TId 1; TOp PIPE; TId 2].
Proof. vm_compute. reflexivity. Qed.
