(** C08 — binary operators group by one fixed table and associate to the left.
    Statements only. The chain-level theorem holds for operands of ANY type (atoms, applications,
    parenthesised expressions, not-terms: whatever parseTerm returns). *)
From Coq Require Import List Arith.
From FoVerif Require Import Front.BinOp Front.BinOpProofs Front.BinOpTokens.
Import ListNotations.

(** For every chain a0 o1 a1 … on ak of any length: climbing (with the fuel the model uses — never
    out of fuel) returns a tree that is well-grouped by the published table, whose in-order
    traversal is the chain, and it is the only such tree. *)
Theorem C08_grouping_is_table_driven :
  forall (atom : Type) (a0 : atom) (r : list (optok * atom)),
  exists t, parse_chain a0 r = Some t /\ wg t /\ first_atom t = a0 /\ tail_chain t = r /\
  forall t', wg t' -> first_atom t' = a0 -> tail_chain t' = r -> t' = t.
Proof. exact parse_chain_correct. Qed.
Print Assumptions C08_grouping_is_table_driven.

Theorem C08_equal_rank_associates_left :
  forall (atom : Type) (a b c : atom) o1 o2, rank o1 = rank o2 ->
  parse_chain a [(o1, b); (o2, c)] = Some (Node o2 (Node o1 (Leaf a) (Leaf b)) (Leaf c)).
Proof. exact equal_rank_assoc_left. Qed.
Print Assumptions C08_equal_rank_associates_left.

Theorem C08_higher_rank_binds_tighter :
  forall (atom : Type) (a b c : atom) o1 o2, rank o1 < rank o2 ->
  parse_chain a [(o1, b); (o2, c)] = Some (Node o1 (Leaf a) (Node o2 (Leaf b) (Leaf c))).
Proof. exact higher_rank_binds_tighter. Qed.
Print Assumptions C08_higher_rank_binds_tighter.

(** the published table, as the property states it (from loosest) *)
Example C08_published_table :
  map rank [PIPE; AMPAMP; BARBAR; LT; GT; LE; GE; EQ; BRACKET; PLUS; MINUS; ASTER; SLASH]
  = [1; 2; 2; 2; 2; 2; 2; 3; 3; 4; 4; 5; 5].
Proof. reflexivity. Qed.

(** token level (model of parseExprWithPrec/parseTerm/parseAtomList/parseAtom): concrete instances of
    the remaining clauses of the property; the general statements follow below *)
Example C08_parens_preserved :   (* (a + b) * c *)
  parse_tokens [TLParen; TId 0; TOp PLUS; TId 1; TRParen; TOp ASTER; TId 2]
  = POk (EBin ASTER (EBin PLUS (EAtom 0) (EAtom 1)) (EAtom 2)) [].
Proof. vm_compute. reflexivity. Qed.
Example C08_application_binds_tighter :   (* f a + g b c *)
  parse_tokens [TId 0; TId 1; TOp PLUS; TId 2; TId 3; TId 4]
  = POk (EBin PLUS (EApp (EAtom 0) [EAtom 1]) (EApp (EAtom 2) [EAtom 3; EAtom 4])) [].
Proof. vm_compute. reflexivity. Qed.
Example C08_not_takes_following_application :   (* not f a && b *)
  parse_tokens [TNot; TId 0; TId 1; TOp AMPAMP; TId 2]
  = POk (EBin AMPAMP (ENot (EApp (EAtom 0) [EAtom 1])) (EAtom 2)) [].
Proof. vm_compute. reflexivity. Qed.
Example C08_newline_before_operator_irrelevant :
  parse_tokens [TId 0; TEOL; TOp PIPE; TId 1; TEOL; TEOL; TOp PIPE; TId 2]
  = parse_tokens [TId 0; TOp PIPE; TId 1; TOp PIPE; TId 2].
Proof. vm_compute. reflexivity. Qed.

(** ---------------------------------------------------------------- token level, general statements
    Surface syntax (Front/BinOpTokens.v): an expression is a term followed by (newlines, operator,
    term)*; a term is [not] term or an application atom atom*; an atom is an identifier/literal, a
    parenthesised expression or (). [flat_expr] is its token string, [wf_expr] requires the head of an
    application with arguments to be an identifier, and [den_expr] groups the terms of every chain
    with the chain-level [parse_chain] of C08_grouping_is_table_driven (parenthesised expressions,
    applications and not-terms are single operands). *)

(** On the token string of every well-formed expression, followed by any continuation that does not
    continue the expression (nothing, a closing parenthesis or another terminator, possibly after
    newlines), the transcription of parseExprWithPrec returns exactly the denotation and the
    continuation, for every fuel >= 3 * (number of tokens) + 2. *)
Theorem C08_parse_tokens_is_table_driven :
  forall e, wf_expr e ->
  forall k, stops k ->
  forall fuel, fuel >= 3 * List.length (flat_expr e) + 2 ->
  parse_expr fuel 1 (flat_expr e ++ k) = POk (den_expr e) k.
Proof. exact parse_expr_flatten. Qed.
Print Assumptions C08_parse_tokens_is_table_driven.

(** parse_tokens (built-in fuel 6 * length + 8) never runs out of fuel and never errs on such input *)
Theorem C08_parse_tokens_flatten :
  forall e, wf_expr e -> parse_tokens (flat_expr e) = POk (den_expr e) [].
Proof. exact parse_tokens_flatten. Qed.
Print Assumptions C08_parse_tokens_flatten.

Theorem C08_parse_tokens_flatten_terminated :
  forall e n, wf_expr e -> parse_tokens (flat_expr e ++ [TEnd n]) = POk (den_expr e) [TEnd n].
Proof. exact parse_tokens_flatten_end. Qed.
Print Assumptions C08_parse_tokens_flatten_terminated.

(** ... and that denotation is, at EVERY nesting level, the unique tree well-grouped by the published
    table over the denotations of that level's terms *)
Theorem C08_denotation_is_table_driven :
  forall t r, exists tr : tree expr,
    den_expr (SE t r) = te tr /\ wg tr /\ first_atom tr = den_term t /\ tail_chain tr = den_rest r /\
    forall t', wg t' -> first_atom t' = den_term t -> tail_chain t' = den_rest r -> t' = tr.
Proof. exact den_expr_table_driven. Qed.
Print Assumptions C08_denotation_is_table_driven.

(** the denotation never takes the default branch of [chain_tree] *)
Theorem C08_chain_tree_total :
  forall a0 r, parse_chain a0 r = Some (chain_tree a0 r).
Proof. exact chain_tree_some. Qed.
Print Assumptions C08_chain_tree_total.

(** explicit parentheses are preserved: ( e ) followed by any chain is parsed to a well-grouped tree
    whose first operand is the whole denotation of e *)
Theorem C08_parens_preserved_general :
  forall e r, wf_expr e -> wf_rest r ->
  exists tr : tree expr,
    parse_tokens (flat_expr (SE (STApp (SAParen e) ANil) r)) = POk (te tr) [] /\
    wg tr /\ first_atom tr = den_expr e /\ tail_chain tr = den_rest r.
Proof. exact parens_preserved. Qed.
Print Assumptions C08_parens_preserved_general.

Theorem C08_parens_preserved_right :
  forall t n o e, wf_term t -> wf_expr e ->
  parse_tokens (flat_expr (SE t (SCons n o (STApp (SAParen e) ANil) SNil)))
  = POk (EBin o (den_term t) (den_expr e)) [].
Proof. exact parens_preserved_right. Qed.
Print Assumptions C08_parens_preserved_right.

(** application binds tighter than every operator:  f a args.. o g b args'..  *)
Theorem C08_application_binds_tighter_general :
  forall f a args g b args' n o,
  wf_atom a -> wf_args args -> wf_atom b -> wf_args args' ->
  parse_tokens (flat_expr (SE (STApp (SAId f) (ACons a args))
                              (SCons n o (STApp (SAId g) (ACons b args')) SNil)))
  = POk (EBin o (EApp (EAtom f) (den_atom a :: den_args args))
                (EApp (EAtom g) (den_atom b :: den_args args'))) [].
Proof. exact application_binds_tighter. Qed.
Print Assumptions C08_application_binds_tighter_general.

(** not applies to the following application:  not f a args.. o t  *)
Theorem C08_not_takes_following_application_general :
  forall f a args n o t, wf_atom a -> wf_args args -> wf_term t ->
  parse_tokens (flat_expr (SE (STNot (STApp (SAId f) (ACons a args))) (SCons n o t SNil)))
  = POk (EBin o (ENot (EApp (EAtom f) (den_atom a :: den_args args))) (den_term t)) [].
Proof. exact not_takes_following_application. Qed.
Print Assumptions C08_not_takes_following_application_general.

(** newlines before an operator are irrelevant, at any nesting level: removing every TEOL from the
    token string does not change the result *)
Theorem C08_newline_before_operator_irrelevant_general :
  forall e, wf_expr e -> parse_tokens (strip_eol (flat_expr e)) = parse_tokens (flat_expr e).
Proof. exact newline_before_operator_irrelevant. Qed.
Print Assumptions C08_newline_before_operator_irrelevant_general.

(** non-vacuity:  ( a EOL EOL + b ) EOL * not f ()   *)
Example C08_surface_example :
  let e := SE (STApp (SAParen (SE (STApp (SAId 0) ANil) (SCons 2 PLUS (STApp (SAId 1) ANil) SNil))) ANil)
              (SCons 1 ASTER (STNot (STApp (SAId 2) (ACons SAUnit ANil))) SNil) in
  flat_expr e = [TLParen; TId 0; TEOL; TEOL; TOp PLUS; TId 1; TRParen; TEOL; TOp ASTER; TNot; TId 2;
                 TLParen; TRParen]
  /\ den_expr e = EBin ASTER (EBin PLUS (EAtom 0) (EAtom 1)) (ENot (EApp (EAtom 2) [EUnit]))
  /\ parse_tokens (flat_expr e) = POk (den_expr e) [].
Proof. vm_compute. repeat split. Qed.

(** the well-formedness side condition is needed: ( ) x  is rejected ("Funcall head is not var") *)
Example C08_wf_needed :
  parse_tokens (flat_expr (SE (STApp SAUnit (ACons (SAId 0) ANil)) SNil)) = PErr.
Proof. vm_compute. reflexivity. Qed.
