(** C04 — checked-in generated Go is a fixed point of the self-hosted compiler.
    The theorem is small: the substance of the check is the hypothesis [run (build g0) s = g0],
    discharged on every run by executing the regeneration recipe over the complete finite set of
    sources (12 compiler sources, 21 samples, the tool, README) and comparing bytes; generation 2 is
    computed as well and must agree with the theorem's prediction. *)
From FoVerif Require Import Driver.Boot.

Theorem C04_regen_fixpoint_all_generations :
  forall (Gen Bin Src : Type) (build : Gen -> Bin) (run : Bin -> Src -> Gen) (s : Src) (g0 : Gen),
    run (build g0) s = g0 -> forall n, generation Gen Bin Src build run s g0 n = g0.
Proof. exact regen_fixpoint_all_generations. Qed.
Print Assumptions C04_regen_fixpoint_all_generations.

Theorem C04_rebuilt_tool_same :
  forall (Gen Bin Src : Type) (build : Gen -> Bin) (run : Bin -> Src -> Gen) (s : Src) (g0 : Gen),
    run (build g0) s = g0 -> forall n, build (generation Gen Bin Src build run s g0 n) = build g0.
Proof. exact rebuilt_tool_same. Qed.
Print Assumptions C04_rebuilt_tool_same.
