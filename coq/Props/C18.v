(** C18 — build_sample_md renders every listed sample verbatim, in order.
    Statements only; each is closed by [exact] of a lemma of Driver/SampleMdProofs.v.

    [fs] is any file system (path -> content, [None] = cannot be read), [path_join] any
    filepath.Join.  [entries content] are the non-empty lines of the list file (the pieces of
    Split "\n", characterised by C14_split_spec), [line_file] / [line_title] the text before /
    after the first space of a line (the whole line when there is no space: title = file name). *)
From Coq Require Import List Ascii String ZArith Bool.
From FoVerif Require Import Pkg.Buf Pkg.Strings Pkg.Frt Driver.SampleMd Driver.SampleMdProofs.
Import ListNotations.

(** [line_file] / [line_title] are what the property's text says *)
Theorem C18_line_columns : forall l f t, split_space l = (f, t) ->
  ~ In " "%char f /\ match t with Some t' => l = f ++ " "%char :: t' | None => l = f end.
Proof. exact split_space_spec. Qed.
Print Assumptions C18_line_columns.

(** one entry: a panic naming the file when it cannot be read, else the section spelled out:
    "### " title, blank line, fence, the content verbatim, newline, fence, blank line,
    "generated go: [gen_<base>.go](./gen_<base>.go)", blank line *)
Theorem C18_entry_is_section : forall fs path_join dir line, line <> [] ->
  convOne fs path_join dir line =
  match fs (path_join dir (line_file line)) with
  | None => Panic (b "Can't open file " ++ line_file line)
  | Some content =>
      Ok (b "### " ++ line_title line ++ [nl; nl] ++
          b "```" ++ [nl] ++ content ++ [nl] ++ b "```" ++ [nl; nl] ++
          b "generated go: [" ++ (b "gen_" ++ TrimSuffix (b ".fo") (line_file line) ++ b ".go") ++
          b "](./" ++ (b "gen_" ++ TrimSuffix (b ".fo") (line_file line) ++ b ".go") ++ b ")" ++ [nl; nl])
  end.
Proof. exact convOne_spec. Qed.
Print Assumptions C18_entry_is_section.

(** every listed file readable: README.md = header, then the sections of the non-empty lines,
    in list order, separated by one newline *)
Theorem C18_readme_is_header_then_sections : forall fs path_join dir content,
  (forall line, In line (entries content) -> readable fs path_join dir line) ->
  render_readme fs path_join dir content =
  Ok ((b "## Folang Sample " ++ [nl; nl; nl]) ++
      join [nl] (map (section_of fs path_join dir) (entries content))).
Proof. exact readme_is_header_then_sections. Qed.
Print Assumptions C18_readme_is_header_then_sections.

Theorem C18_order_preserved : forall fs path_join dir content l1 x l2 y l3,
  (forall line, In line (entries content) -> readable fs path_join dir line) ->
  entries content = l1 ++ x :: l2 ++ y :: l3 ->
  exists pre mid post,
    render_readme fs path_join dir content =
    Ok (header ++ pre ++ section_of fs path_join dir x ++ mid ++ section_of fs path_join dir y ++ post).
Proof. exact order_preserved. Qed.
Print Assumptions C18_order_preserved.

(** the tool fails (panics before README.md is written) exactly when some listed file cannot be read *)
Theorem C18_unreadable_fails : forall fs path_join dir content,
  (exists m, render_readme fs path_join dir content = Panic m) <->
  (exists line, In line (entries content) /\ ~ readable fs path_join dir line).
Proof. exact unreadable_fails. Qed.
Print Assumptions C18_unreadable_fails.

(** ... with the first unreadable file in the message *)
Theorem C18_first_unreadable_named : forall fs path_join dir content pre line post,
  entries content = pre ++ line :: post ->
  (forall l, In l pre -> readable fs path_join dir l) -> ~ readable fs path_join dir line ->
  render_readme fs path_join dir content = Panic (b "Can't open file " ++ line_file line).
Proof. exact first_unreadable_panics. Qed.
Print Assumptions C18_first_unreadable_named.

(** histories (re-runs in the same directory, list and samples edited in between): README.md is
    exactly the rendering of the last run when all its files were readable, whatever README.md held
    before (sys.WriteFile truncates), and a failing run leaves README.md as the earlier runs left it *)
Theorem C18_history_last_run : forall path_join h fs content before dir,
  ((forall line, In line (entries content) -> readable fs path_join dir line) ->
   tool_history path_join before dir (h ++ [(fs, content)]) =
   Some (header ++ join [nl] (map (section_of fs path_join dir) (entries content)))) /\
  ((exists line, In line (entries content) /\ ~ readable fs path_join dir line) ->
   tool_history path_join before dir (h ++ [(fs, content)]) = tool_history path_join before dir h).
Proof. exact history_last_run. Qed.
Print Assumptions C18_history_last_run.

(** non-vacuity *)
Definition render_ok (o : outcome bytes) : option bytes := match o with Ok s => Some s | Panic _ => None end.

Example C18_example_render :
  render_files [(b "d/a.fo", b "AAA"); (b "d/b", b "B`%")] (b "d")
               (b "a.fo Title one" ++ [nl; nl] ++ b "b" ++ [nl])
  = Ok (b "## Folang Sample " ++ [nl; nl; nl] ++
        b "### Title one" ++ [nl; nl] ++ b "```" ++ [nl] ++ b "AAA" ++ [nl] ++ b "```" ++ [nl; nl] ++
        b "generated go: [gen_a.go](./gen_a.go)" ++ [nl; nl] ++ [nl] ++
        b "### b" ++ [nl; nl] ++ b "```" ++ [nl] ++ b "B`%" ++ [nl] ++ b "```" ++ [nl; nl] ++
        b "generated go: [gen_b.go](./gen_b.go)" ++ [nl; nl]).
Proof. vm_compute. reflexivity. Qed.

Example C18_example_missing :
  render_files [(b "d/a.fo", b "AAA")] (b "d") (b "a.fo T" ++ [nl] ++ b "c.fo x" ++ [nl])
  = Panic (b "Can't open file c.fo").
Proof. vm_compute. reflexivity. Qed.

Example C18_example_history :
  history_files None (b "d")
    [([(b "d/a.fo", b "AAA"); (b "d/b.fo", b "BBBBBBBBBBBB")], b "a.fo" ++ [nl] ++ b "b.fo B");
     ([(b "d/a.fo", b "A")], b "a.fo" ++ [nl] ++ b "b.fo B");
     ([(b "d/a.fo", b "A")], b "a.fo")]
  = [render_ok (render_files [(b "d/a.fo", b "AAA"); (b "d/b.fo", b "BBBBBBBBBBBB")] (b "d") (b "a.fo" ++ [nl] ++ b "b.fo B"));
     render_ok (render_files [(b "d/a.fo", b "AAA"); (b "d/b.fo", b "BBBBBBBBBBBB")] (b "d") (b "a.fo" ++ [nl] ++ b "b.fo B"));
     render_ok (render_files [(b "d/a.fo", b "A")] (b "d") (b "a.fo"))].
Proof. vm_compute. reflexivity. Qed.
