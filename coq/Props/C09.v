(** C09 — a union match without default is accepted exactly when it covers every case.
    Statements only; each is closed by [exact] of a lemma of Front/ExhaustProofs.v. *)
From Coq Require Import List String Permutation.
From FoVerif Require Import Front.Exhaust Front.ExhaustProofs.
Import ListNotations.

(** For every enumeration order [enum] of the marking dictionary (dict.KVs), every union
    (list of case names), every list of arms (any order, any payload forms, duplicates allowed)
    and either presence of a trailing default arm. *)
Theorem C09_accept_iff_covers :
  forall enum, (forall l, Permutation (enum l) l) ->
  forall cases arms has_default,
    check enum cases arms has_default = Accept <->
    arms <> [] /\ (has_default = true \/ incl cases (map a_case arms)).
Proof. exact accept_iff_covers. Qed.
Print Assumptions C09_accept_iff_covers.

Theorem C09_reject_names_uncovered :
  forall enum, (forall l, Permutation (enum l) l) ->
  forall cases arms has_default n,
    check enum cases arms has_default = RejectUncovered n ->
    has_default = false /\ In n cases /\ ~ In n (map a_case arms).
Proof. exact reject_names_uncovered. Qed.
Print Assumptions C09_reject_names_uncovered.

Theorem C09_never_reached_unreachable :
  forall enum, (forall l, Permutation (enum l) l) ->
  forall cases arms has_default c,
    check enum cases arms has_default = Accept -> In c cases ->
    dispatch arms has_default c <> NeverReached.
Proof. exact never_reached_unreachable. Qed.
Print Assumptions C09_never_reached_unreachable.

Theorem C09_dispatch_first_matching_arm :
  forall arms has_default c i,
    dispatch arms has_default c = ArmNo i ->
    (exists a, nth_error arms i = Some a /\ a_case a = c) /\
    (forall k a, k < i -> nth_error arms k = Some a -> a_case a <> c).
Proof. exact dispatch_first_matching_arm. Qed.
Print Assumptions C09_dispatch_first_matching_arm.

(** The oracle's concrete enumeration orders satisfy the hypothesis. *)
Theorem C09_oracle_enum_is_permutation : forall k r l, Permutation (enum_k k r l) l.
Proof. exact enum_k_perm. Qed.
Print Assumptions C09_oracle_enum_is_permutation.

(** non-vacuity: a concrete accepted and a concrete rejected match *)
Example C09_example_accept :
  check (enum_k 1 true) ["A";"B";"C"]%string
        [mkArm "C" Bind; mkArm "A" Ignore; mkArm "B" NoPayload]%string false = Accept.
Proof. vm_compute. reflexivity. Qed.
Example C09_example_reject :
  check (enum_k 0 false) ["A";"B";"C"]%string [mkArm "C" Bind; mkArm "A" Ignore]%string false
  = RejectUncovered "B"%string.
Proof. vm_compute. reflexivity. Qed.
