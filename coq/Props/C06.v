(** C06 — only relative indentation and line structure matter (offside rule).
    Statements only; each is closed by [exact] of a lemma of Front/LayoutProofs.v / Front/LayoutInv.v.

    The property, in full: for every program and any two layouts of it drawn from the layout grammar
    (per-block indentation by any positive amount, blank lines, trailing blanks, line and block comments
    between or after statements, cases and fields, an if on one line or several, a let's right-hand side
    or a match arm's body on the same or the next line, a break before any |>), fc emits the same Go;
    conversely a line indented less than its block ends that block.

    What is proved here, about the model of Front/Layout.v (a transcription of newTkz/tkzNext and of the
    offside skeleton of fc/parser.fo, tied to fc by the correspondence run in harness/c06.go):

    (a) C06_col_is_true_column      the incrementally tracked column is the true column
    (b) C06_columns_only_compared   columns are read only through comparisons
    (c) C06_layout_invariance_partial, C06_same_structure_same_parse, C06_block_layout_invariance,
        C06_dedent_ends_block       the offside parser inverts the layout printer on every valid layout.

    [_partial]: (c) covers blocks, let (right-hand side on the same or a later line, at any column), local
    and root function definitions (body on the same or a later line), multi-line if/elif/else chains with or
    without else (else body on the same or a later line; 'else'/'elif' at any column left of the preceding
    block, which must not itself end in a multi-line if without else), then-bodies on the line of their
    if/elif followed by else/elif on the same line (the one-line if c then a [elif d then b]... [else e]) or on
    a later line at any column inside the offside line of the enclosing block, union matches (arm
    bars at any columns inside the offside line and left of the previous body, bodies on the same or a later
    line, a trailing default arm), string matches (literal rules and the closing variable rule at any column
    left of the previous body - they are not tested against the offside line -, the default rule inside it),
    chains of binary operators with a
    line break before any operator (|> included) at any column, lambdas in parentheses (body on the same
    or a later line, ')' also on a line of its own), any number of extra EOL tokens (blank lines, comment
    lines, trailing comments) at every line end, statements after the first of a block at any column that
    is not left of the block and left of what the previous statement left open.
    Also covered: parenthesised expressions and tuples (a lambda, an if, a match or any block-ending expression
    as the last element, ')' then also on a line of its own), slice literals and record literals (elements /
    field values of any form; the ';' or the closing token after an element that ends with a block stands on a
    later line left of that block; a record field may be broken after its name and after '='; nothing else may
    be broken: fc skips no EOL after the opening token or a separator), (), destructuring lets, and at the root:
    package / import lines, union definitions (cases at any column: they are not tested against the offside
    line) and package_info blocks (their definitions form an offside block).
    Outside (c) (modelled by parse_blocks, exercised by the harness, not proved): record type definitions
    with fields on several lines, specified record initializers (rec.X = e), record/slice literals, let destructuring, type
    definitions and package/import lines, and distinct columns for the tokens that are neither first on
    their line nor the first token of a same-line body (they share one arbitrary column [inner]).

    Finding n ("an if on one line or several" failed with elif / with else on the next line) is repaired in
    fc; the model transcribes the repaired parser: see C06_elif_one_line_accepted and the documentation
    C06_elif_one_line_refuted_old below. Known finding string-arm-dedent (converse clause, string matches)
    is visible in the validity predicate wf_sarms: literal and variable rules are not tied to the offside line. *)
From Coq Require Import List ZArith Arith.
From FoVerif Require Import Front.Layout Front.LayoutProofs Front.LayoutInv Front.LayoutEx.
Import ListNotations.

(** (a) For every byte string [buf], every token stream scanned from it (tokens in order, not overlapping,
    an EOL token is exactly one newline byte) and every token k: if no newline byte lies between the end of
    the last EOL token before k and k (no hidden newline inside a string, raw string or block comment),
    the column that newTkz/tkzNext maintain for k is its offset minus the offset of its line's start. *)
Theorem C06_col_is_true_column : forall buf ts k tk,
  wf_stream buf ts ->
  nth_error ts k = Some tk ->
  (forall p, (last_eol_end ts k <= p < rt_begin tk)%Z -> nl_at buf p = false) ->
  nth_error (tkz_cols ts) k = Some (rt_begin tk - line_start_z buf (rt_begin tk))%Z.
Proof. exact col_is_true_column. Qed.
Print Assumptions C06_col_is_true_column.

(** without the hypothesis on hidden newlines: the tracked column is the distance to the end of the last
    EOL token (so it is wrong exactly for tokens that follow a hidden newline on their line) *)
Theorem C06_tracked_column_is_distance_to_last_eol_token : forall ts k t,
  nth_error ts k = Some t ->
  nth_error (tkz_cols ts) k = Some (rt_begin t - last_eol_end ts k)%Z.
Proof. exact tkz_cols_spec. Qed.
Print Assumptions C06_tracked_column_is_distance_to_last_eol_token.

(** (b) every strictly monotone relabelling of the columns that keeps the left margin leaves the recovered
    block structure, and every rejection, unchanged — for every token stream and every fuel. *)
Theorem C06_columns_only_compared : forall rho, strictly_monotone rho -> rho 0 = 0 ->
  forall n ts, parse_blocks n (map_cols rho ts) = parse_blocks n ts.
Proof. exact columns_only_compared. Qed.
Print Assumptions C06_columns_only_compared.

Theorem C06_columns_only_compared_block : forall rho, strictly_monotone rho ->
  forall n off ts,
    p_block n (rho off) (map_cols rho ts) =
    match p_block n off ts with Ok (b, r) => Ok (b, map_cols rho r) | Reject => Reject | Fuel => Fuel end.
Proof. exact columns_only_compared_block. Qed.
Print Assumptions C06_columns_only_compared_block.

(** (c) for every decorated program whose layout choices are valid, the parser recovers the erased
    program from the rendered token stream, with any sufficient fuel *)
Theorem C06_layout_invariance_partial : forall inner p, wf_prog None p ->
  exists n0, forall n, n0 <= n -> parse_blocks n (r_prog inner p) = Ok (er_prog p).
Proof. exact layout_invariance_partial. Qed.
Print Assumptions C06_layout_invariance_partial.

Theorem C06_same_structure_same_parse : forall inner1 inner2 p1 p2,
  wf_prog None p1 -> wf_prog None p2 -> er_prog p1 = er_prog p2 ->
  exists n0, forall n, n0 <= n -> parse_blocks n (r_prog inner1 p1) = parse_blocks n (r_prog inner2 p2).
Proof. exact same_structure_same_parse. Qed.
Print Assumptions C06_same_structure_same_parse.

Theorem C06_block_layout_invariance : forall inner b off, wf_block off b ->
  exists n0, forall n, n0 <= n -> p_block n off (r_block inner b) = Ok (er_block b, []).
Proof. exact block_layout_invariance. Qed.
Print Assumptions C06_block_layout_invariance.

(** conversely: a line whose first token stands strictly left of a block ends the block right there *)
Theorem C06_dedent_ends_block : forall inner b off k t c' r,
  wf_block off b -> end_of_term k = true -> nohd_else k -> skip_eol k = (t, c') :: r -> is_binop t = false ->
  (block_io b = true -> noelse t) -> c' < bcol b ->
  exists n0, forall n, n0 <= n -> p_block n off (r_block inner b ++ k) = Ok (er_block b, (t, c') :: r).
Proof. exact dedent_ends_block. Qed.
Print Assumptions C06_dedent_ends_block.

(** C06_elif_one_line_refuted_old (documentation, about the parser BEFORE the repair "fix: if/elif/else may
    be written on one line"): the transcription of the old isEndOfTerm / parseIfAfterIfExpr (no ELIF in
    isEndOfTerm; the one-line branch looked for 'else' on the same line only) gave
        parse_blocks 200 if_one_line_elif            = Reject      (if c then a elif d then b else e)
        parse_blocks 200 if_inline_then_newline_else = Reject      (if c then a / else e)
    while parse_blocks 200 if_multi = Ok _, which refuted the clause "an if may be written on one line or on
    several" (finding n; it was a theorem of this file up to commit 11b6999 of the verification repository).
    With the repaired parser, transcribed in Front/Layout.v (p_if, p_if1, p_if_nl), the same token streams
    give the tree of the multi-line form, and the one-line forms are covered by C06_layout_invariance_partial
    (decorated trees TOne / R1Else / R1Elif / R1NlElse / R1NlElif). An else/elif on a later line belongs to
    a one-line if only if it stands inside the offside line of the block that contains the if. *)
Theorem C06_elif_one_line_accepted :
  (exists t, parse_blocks 200 if_multi = Ok t /\ parse_blocks 200 if_one_line_elif = Ok t /\
             parse_blocks 200 if_inline_elif_newline_else = Ok t) /\
  (exists t, parse_blocks 200 if2_multi = Ok t /\ parse_blocks 200 if_inline_then_newline_else = Ok t) /\
  parse_blocks 200 if_inline_then_else_left_of_block = Reject.
Proof. exact elif_one_line_accepted. Qed.
Print Assumptions C06_elif_one_line_accepted.

(** non-vacuity *)
Example C06_example_two_layouts :
  wf_prog None ex_a /\ wf_prog None ex_b /\ er_prog ex_a = er_prog ex_b /\
  r_prog 0 ex_a <> r_prog 99 ex_b /\
  parse_blocks 400 (r_prog 0 ex_a) = Ok (er_prog ex_a) /\
  parse_blocks 400 (r_prog 99 ex_b) = Ok (er_prog ex_a).
Proof. exact two_layouts_one_tree. Qed.

Example C06_example_if_three_layouts :
  wf_prog None ex_if_multi /\ wf_prog None ex_if_one_line /\ wf_prog None ex_if_mixed /\
  er_prog ex_if_multi = er_prog ex_if_one_line /\ er_prog ex_if_multi = er_prog ex_if_mixed /\
  parse_blocks 200 (r_prog 0 ex_if_multi) = Ok (er_prog ex_if_multi) /\
  parse_blocks 200 (r_prog 30 ex_if_one_line) = Ok (er_prog ex_if_multi) /\
  parse_blocks 200 (r_prog 30 ex_if_mixed) = Ok (er_prog ex_if_multi).
Proof. exact if_three_layouts. Qed.

Example C06_example_groups :
  wf_prog None (ex_groups true 7) /\ wf_prog None (ex_groups false 40) /\
  er_prog (ex_groups true 7) = er_prog (ex_groups false 40) /\
  parse_blocks 400 (r_prog 0 (ex_groups true 7)) = Ok (er_prog (ex_groups true 7)) /\
  parse_blocks 400 (r_prog 50 (ex_groups false 40)) = Ok (er_prog (ex_groups true 7)).
Proof. exact groups_two_layouts. Qed.

Example C06_example_roots :
  wf_prog None (ex_roots 0 2 2) /\ wf_prog None (ex_roots 3 9 7) /\
  er_prog (ex_roots 0 2 2) = er_prog (ex_roots 3 9 7) /\
  parse_blocks 400 (r_prog 0 (ex_roots 0 2 2)) = Ok (er_prog (ex_roots 0 2 2)) /\
  parse_blocks 400 (r_prog 33 (ex_roots 3 9 7)) = Ok (er_prog (ex_roots 0 2 2)).
Proof. exact roots_two_layouts. Qed.

Example C06_example_dedent :
  (exists t, parse_blocks 200 ded_ok = Ok t) /\ parse_blocks 200 ded_bad = Reject.
Proof. exact dedent_example. Qed.

Example C06_example_columns :
  tkz_cols [mkRtok false 0 3; mkRtok false 4 1; mkRtok true 9 1; mkRtok false 12 1; mkRtok false 14 2;
            mkRtok true 23 1; mkRtok false 35 3; mkRtok false 76 0]%Z = [0; 4; 9; 2; 4; 13; 11; 52]%Z.
Proof. vm_compute. reflexivity. Qed.

Example C06_example_relabel :
  parse_blocks 200 (map_cols (fun c => 2 * c + c / 4) if_multi) = parse_blocks 200 if_multi /\
  (exists t, parse_blocks 200 if_multi = Ok t).
Proof. vm_compute. split; [reflexivity|eexists; reflexivity]. Qed.
