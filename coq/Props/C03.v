(** C03 — declarations and foreign calls follow the documented Go representation. Statements only.
    [doc_record], [doc_union], [doc_case], [doc_func] are the documented shapes written independently
    of the emission functions (Core/DeclsProofs.v); Go types are opaque texts (their mapping is C15). *)
From Coq Require Import List String.
From FoVerif Require Import Core.Decls Core.DeclsProofs.
Import ListNotations.

Theorem C03_record_matches_doc : forall r, doc_record r (emit_record r).
Proof. exact emit_record_matches_doc. Qed.
Print Assumptions C03_record_matches_doc.

(** any number of cases, any payload types, generic or not *)
Theorem C03_union_matches_doc : forall u, doc_union u (emit_union u).
Proof. exact emit_union_matches_doc. Qed.
Print Assumptions C03_union_matches_doc.

Theorem C03_ctor_is_var_iff :
  forall u cn payload,
  (exists t, In (GVar (ctor_name (ud_name u) cn) t) (emit_case u (cn, payload)))
  <-> payload = None /\ ud_tparams u = [].
Proof. exact ctor_is_var_iff. Qed.
Print Assumptions C03_ctor_is_var_iff.

Theorem C03_root_func_matches_doc : forall f, doc_func f (emit_root_func f).
Proof. exact emit_root_func_matches_doc. Qed.
Print Assumptions C03_root_func_matches_doc.

Theorem C03_unit_param_no_param :
  forall f, Forall (fun p => snd p = None) (fd_params f) ->
  emit_root_func f = GFunc (fd_name f) (fd_tparams f) [] (fd_result f).
Proof. exact unit_param_no_param. Qed.
Print Assumptions C03_unit_param_no_param.

Theorem C03_ext_call_args_in_order :
  forall pkg name targs supplied missing result,
  let e := emit_ext_call pkg name targs supplied missing result in
  call_fn e = pi_full_name pkg name /\
  exists rs, call_args e = (map XArg supplied ++ map XVar rs)%list /\ List.length rs = List.length missing /\
  match missing with
  | [] => e = XCall (pi_full_name pkg name) targs (map XArg supplied)
  | _ => exists ps, e = XClosure ps result (XCall (pi_full_name pkg name) targs (map XArg supplied ++ map XVar rs)%list)
                    /\ map fst ps = rs /\ map snd ps = missing
  end.
Proof. exact ext_call_args_in_order. Qed.
Print Assumptions C03_ext_call_args_in_order.

(** non-vacuity *)
Example C03_example_union :
  emit_union (mkUnion "Sh" ["T"] [("Circle", Some "T"); ("Empty", None)])%string =
  [GInterface "Sh" ["T"] "Sh_Union";
   GMethod None "Sh_Circle" ["T"] "Sh_Union" None; GMethod None "Sh_Empty" ["T"] "Sh_Union" None;
   GMethod (Some "v") "Sh_Circle" ["T"] "String" (Some "string"); GMethod (Some "v") "Sh_Empty" ["T"] "String" (Some "string");
   GStruct "Sh_Circle" ["T"] [("Value", "T")]; GFunc "New_Sh_Circle" ["T"] [("v", "T")] (Some "Sh[T]");
   GStruct "Sh_Empty" ["T"] []; GFunc "New_Sh_Empty" ["T"] [] (Some "Sh[T]")]%string.
Proof. vm_compute. reflexivity. Qed.
Example C03_example_call :
  emit_ext_call "_" "Ext3" [] ["a"] ["string"; "bool"] (Some "string")%string =
  XClosure [("_r0", "string"); ("_r1", "bool")] (Some "string")
           (XCall "Ext3" [] [XArg "a"; XVar "_r0"; XVar "_r1"])%string.
Proof. vm_compute. reflexivity. Qed.
