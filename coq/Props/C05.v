(** C05 — transpilation is deterministic: no mechanism that enumerates a dictionary lets the
    enumeration order influence output bytes or the accept/reject decision.
    Site-local theorems (one per enumerating mechanism) + the generated inventory gen/DictSites.v
    ("the source has no other enumeration site"); composition through the unmodelled parts of the
    compiler rests on the permuted-dict builds run by the harness. Statements only. *)
From Coq Require Import List Arith Permutation Sorted String.
From FoVerif Require Import Driver.Order Driver.OrderProofs Front.Exhaust Front.ExhaustProofs.
Import ListNotations.

(** record literal resolution (scLookupRecFacCur, after the fix): any two enumeration orders of the
    scope's record dictionary and any two (possibly unstable) sorting routines give the same record *)
Theorem C05_rec_lookup_order_independent :
  forall sort1 sort2 : list recfac -> list recfac,
  (forall l, Sorted name_le (sort1 l)) -> (forall l, Permutation (sort1 l) l) ->
  (forall l, Sorted name_le (sort2 l)) -> (forall l, Permutation (sort2 l) l) ->
  forall e1 e2 fs, NoDup (map r_name e1) -> Permutation e1 e2 ->
  rec_lookup sort1 e1 fs = rec_lookup sort2 e2 fs.
Proof. exact rec_lookup_order_independent. Qed.
Print Assumptions C05_rec_lookup_order_independent.

(** the code before the fix: the statement was false (finding d) *)
Theorem C05_rec_lookup_old_order_dependent_refuted :
  exists e1 e2 fs, Permutation e1 e2 /\ NoDup (map r_name e1) /\ rec_lookup_old e1 fs <> rec_lookup_old e2 fs.
Proof. exact rec_lookup_old_order_dependent_refuted. Qed.
Print Assumptions C05_rec_lookup_old_order_dependent_refuted.

(** piRegAll: the scope after registering a package_info does not depend on the order of dict.KVs *)
Theorem C05_pi_reg_all_order_independent :
  forall (V : Type) (full_name : nat -> nat) (e1 e2 : list (nat * V)) scope,
  (forall a b, full_name a = full_name b -> a = b) ->
  NoDup (map fst e1) -> Permutation e1 e2 ->
  forall k, get k (pi_reg_all full_name e1 scope) = get k (pi_reg_all full_name e2 scope).
Proof. exact @pi_reg_all_order_independent. Qed.
Print Assumptions C05_pi_reg_all_order_independent.

(** eqsUnion: the union set does not depend on the order of dict.Keys of either operand, and is
    exactly the union *)
Theorem C05_eqs_union_order_independent :
  forall a1 a2 b1 b2, Permutation a1 a2 -> Permutation b1 b2 ->
  forall k, get k (eqs_union a1 b1) = get k (eqs_union a2 b2).
Proof. exact eqs_union_order_independent. Qed.
Print Assumptions C05_eqs_union_order_independent.

Theorem C05_eqs_union_spec :
  forall a b k, get k (eqs_union a b) = if in_dec Nat.eq_dec k (a ++ b) then Some true else None.
Proof. exact eqs_union_spec. Qed.
Print Assumptions C05_eqs_union_spec.

(** rsRegisterNewEI *)
Theorem C05_rs_register_order_independent :
  forall (V : Type) (ei : V) (m1 m2 : list nat) resolver, Permutation m1 m2 ->
  forall k, get k (rs_register_new_ei ei m1 resolver) = get k (rs_register_new_ei ei m2 resolver).
Proof. exact @rs_register_order_independent. Qed.
Print Assumptions C05_rs_register_order_independent.

(** exaustiveCheck: accept/reject does not depend on dict.KVs order (the NAMED case may differ: only
    the decision is claimed, as the property says) *)
Theorem C05_exhaust_decision_order_independent :
  forall enum enum', (forall l, Permutation (enum l) l) -> (forall l, Permutation (enum' l) l) ->
  forall cases arms has_default,
    check enum cases arms has_default = Accept <-> check enum' cases arms has_default = Accept.
Proof. intros enum enum' H H'. exact (decision_order_independent enum H enum' H'). Qed.
Print Assumptions C05_exhaust_decision_order_independent.

(** the oracle's sort satisfies the hypotheses; non-vacuity *)
Theorem C05_oracle_sort_ok : (forall l, Sorted name_le (isort l)) /\ (forall l, Permutation (isort l) l).
Proof. split; [exact isort_sorted|exact isort_perm]. Qed.
Print Assumptions C05_oracle_sort_ok.
Example C05_example_three_records :
  rec_lookup isort [mkRec 2 [10; 11]; mkRec 3 [10; 11]; mkRec 1 [10; 11]] [10; 11]
  = rec_lookup isort [mkRec 3 [10; 11]; mkRec 1 [10; 11]; mkRec 2 [10; 11]] [10; 11].
Proof. vm_compute. reflexivity. Qed.
