(** C01 — transpiled programs behave exactly as their Folang source specifies.
    Statements only; each is closed by [exact] of a lemma of Core/CompileProof.v / Core/CompileExamples.v.

    Models: Core/MiniFo.v (source: typed-and-elaborated AST of Core/FORMAT.md, fuelled big-step
    evaluator [run_src]), Core/MiniGo.v (the Go fragment fc emits, [run_go]), Core/Compile.v
    ([compile_prog], the lowering of fc/ir_factory.fo + expr_to_go.fo + stmt_to_go.fo), Core/Lib.v (the
    list-level specification of frt / slice / strings shared by both evaluators).

    [wt p] (Core/SimDefs.v, [wfp false]): the proved fragment = every MiniFo construct, with the side
    conditions: identifiers are not reserved ([_…], [New_…]); the two branches of an [if] agree on being of
    type unit; tuples / destructurings have 2 or 3 components; a record literal mentions every declared field
    exactly once (in any order); constructors are declared and the generated Go
    constructor names are pairwise distinct; [ext] names a source-level library function.
    [pap_args_pure p] ([wfp true]): moreover every argument supplied to a partial application is [pure]: a variable, a
    literal, a lambda, such a partial application, or an operator / [=] / [not] / tuple / record / field access /
    constructor / slice literal over such arguments (no call, pipe, if, match, interpolation) — fc re-evaluates these arguments at each call of the
    closure it emits (fcPartialApplyGo), so the statement is false without it (see [C01_compile_effectful_pap_refuted]). *)
From Coq Require Import List ZArith String.
From FoVerif Require Import Core.Common Core.Lib Core.MiniFo Core.MiniGo Core.Compile Core.GoRules Core.SimDefs
  Core.CompileProof Core.CompileExamples Core.FuelMono Core.CompileMore Core.WfCheck.
Import ListNotations.

(** The full statement of the property on the model (NOT provable: refuted below). *)
Definition C01_compile_correct_full_statement : Prop :=
  forall p n out, wt p -> run_src n p = ODone out -> exists m, run_go m (compile_prog p) = ODone out.

(** Whenever the source semantics runs the program to completion with output [out], the emitted Go program,
    run in the MiniGo semantics, terminates with exactly the output [out]. *)
Theorem C01_compile_correct_partial : forall p n out,
  wt p -> pap_args_pure p ->
  run_src n p = ODone out -> exists m, run_go m (compile_prog p) = ODone out.
Proof. exact compile_correct_partial. Qed.
Print Assumptions C01_compile_correct_partial.

(** … and it does so at every sufficiently large fuel (the result does not depend on the fuel chosen). *)
Theorem C01_compile_correct_eventually : forall p, pap_args_pure p -> forall n out,
  run_src n p = ODone out -> exists m0, forall m, m0 <= m -> run_go m (compile_prog p) = ODone out.
Proof. exact compile_correct_eventually. Qed.
Print Assumptions C01_compile_correct_eventually.

(** More fuel never changes a completed run, in either semantics; hence "the output" is well defined … *)
Theorem C01_run_src_mono : forall m m' p out, m <= m' -> run_src m p = ODone out -> run_src m' p = ODone out.
Proof. exact run_src_mono. Qed.
Print Assumptions C01_run_src_mono.
Theorem C01_run_go_mono : forall m m' g out, m <= m' -> run_go m g = ODone out -> run_go m' g = ODone out.
Proof. exact run_go_mono. Qed.
Print Assumptions C01_run_go_mono.

(** … and every completed run of the emitted Go program prints exactly what the source prints. *)
Theorem C01_go_output_is_source_output : forall p n out,
  pap_args_pure p -> run_src n p = ODone out ->
  forall m out', run_go m (compile_prog p) = ODone out' -> out' = out.
Proof. exact go_output_is_source_output. Qed.
Print Assumptions C01_go_output_is_source_output.

(** The full statement is false on the model of the pinned code: *)
Theorem C01_compile_correct_full_refuted : ~ C01_compile_correct_full_statement.
Proof. exact compile_correct_full_refuted. Qed.
Print Assumptions C01_compile_correct_full_refuted.

(** A known defect (finding (a)): a well-formed program with an effectful argument in a partial
    application prints differently in the emitted Go ([let g = add (say "arg" 1)]: the source prints
    "arg" once when [g] is made, the Go prints it at every call of [g]). *)
Theorem C01_compile_effectful_pap_refuted :
  exists p n m o1 o2, wt p /\ run_src n p = ODone o1 /\ run_go m (compile_prog p) = ODone o2 /\ o1 <> o2.
Proof.
  exists ex_effectful_pap, 100, 200. eexists. eexists.
  split; [exact ex_effectful_pap_wt|]. split; [exact ex_effectful_pap_src|]. split; [exact ex_effectful_pap_go|].
  vm_compute. discriminate.
Qed.
Print Assumptions C01_compile_effectful_pap_refuted.

(** The behaviours the property names, for any expression occurring in any context of a program [p] of the
    fragment ([senv]/[genv]: related source / target environments; [Geval genv e t v t']: the Go expression
    [e] evaluates in [genv] from trace [t] to value [v] and trace [t'] at every sufficiently large fuel). *)

(** only the taken branch of an [if] is evaluated — whatever the other branch is *)
Theorem C01_untaken_branch_silent : forall p, pap_args_pure p ->
  forall n senv genv c bt bf t (cv:bool) t1 v t2 k,
  wfe true (ok p) (EIf c bt bf) -> erel DFc (ok p) (fc_gfuncs p) senv genv ->
  eval (p_funs p) n senv c t = Done (VBool cv) t1 ->
  eval_block (p_funs p) n senv (if cv then bt else bf) t1 = Done v t2 ->
  exists gv, Geval (fc_gfuncs p) (fc_gvars p) genv (compile DFc k (EIf c bt bf)) t gv t2 /\ vrel DFc (ok p) (fc_gfuncs p) v gv.
Proof. exact (untaken_branch_silent_d DFc 0). Qed.
Print Assumptions C01_untaken_branch_silent.

(** only the needed operand of [&&] / [||] is evaluated *)
Theorem C01_short_circuit : forall p, pap_args_pure p ->
  forall n senv genv a b t t1 k (is_and:bool),
  wfe true (ok p) (EBin (if is_and then OAnd else OOr) a b) -> erel DFc (ok p) (fc_gfuncs p) senv genv ->
  eval (p_funs p) n senv a t = Done (VBool (negb is_and)) t1 ->
  Geval (fc_gfuncs p) (fc_gvars p) genv (compile DFc k (EBin (if is_and then OAnd else OOr) a b)) t (GVBool (negb is_and)) t1.
Proof. exact (short_circuit_d DFc 0). Qed.
Print Assumptions C01_short_circuit.

(** a match dispatches to the arm of the constructor the value was built with *)
Theorem C01_match_dispatches_to_constructor : forall p, pap_args_pure p ->
  forall n senv genv e u arms def t c payload t1 bx b v t2 k,
  wfe true (ok p) (EMatchU e u arms def) -> erel DFc (ok p) (fc_gfuncs p) senv genv ->
  eval (p_funs p) n senv e t = Done (VUnion u c payload) t1 ->
  find_arm c arms = Some (bx, b) ->
  eval_block (p_funs p) n
    (match bx, payload with Some x, Some pv => (x, pv) :: senv | _, _ => senv end) b t1 = Done v t2 ->
  (bx <> None -> payload <> None) ->
  exists gv, Geval (fc_gfuncs p) (fc_gvars p) genv (compile DFc k (EMatchU e u arms def)) t gv t2 /\ vrel DFc (ok p) (fc_gfuncs p) v gv.
Proof. exact (match_dispatches_to_constructor_d DFc 0). Qed.
Print Assumptions C01_match_dispatches_to_constructor.

(** operands / arguments / components are evaluated left to right *)
Theorem C01_effects_in_source_order : forall p, pap_args_pure p ->
  forall n senv genv es t vs t' k,
  Forall (wfe true (ok p)) es -> erel DFc (ok p) (fc_gfuncs p) senv genv ->
  evals (p_funs p) n senv es t = Done vs t' ->
  exists gvs, Gevals (fc_gfuncs p) (fc_gvars p) genv (compile_list DFc k es) t gvs t' /\ Forall2 (vrel DFc (ok p) (fc_gfuncs p)) vs gvs.
Proof. exact (effects_in_source_order_d DFc 0). Qed.
Print Assumptions C01_effects_in_source_order.

(** record literals may be written in any order: the initialisers run in the order written, the value (and so
    [=], field access) does not depend on that order *)
Example C01_example_record_order :
  pap_args_pure ex_record_order /\
  run_src 100 ex_record_order =
  ODone ("n1" ++ nl ++ "n2" ++ nl ++ "n3" ++ nl ++ "n4" ++ nl ++ "true" ++ nl ++ "true" ++ nl ++ "true" ++ nl ++
         "2" ++ nl ++ "1" ++ nl ++ "y" ++ nl ++ "n10" ++ nl ++ "n20" ++ nl ++ "30" ++ nl)%string /\
  run_go 200 (compile_prog ex_record_order) = run_src 100 ex_record_order.
Proof. split; [exact ex_record_order_pure|exact ex_record_order_runs]. Qed.

(** the oracle's answer to [C01 (fragment <prog>)] is sound: a program it accepts satisfies the hypotheses *)
Theorem C01_fragment_check_sound : forall strict n p,
  wfp_b strict (p_unions p) n p = true -> if strict then pap_args_pure p else wt p.
Proof. intros strict n p H. destruct strict; exact (wfp_b_sound _ n p H). Qed.
Print Assumptions C01_fragment_check_sound.

(** non-vacuity: a program of the fragment that uses closures, a partial application in a pipe, slices with
    callbacks, a record, a union with a match, a string match, destructuring, interpolation, short-circuit
    and recursion; it runs and prints in both semantics. *)
Example C01_example_in_fragment : wt ex_demo /\ pap_args_pure ex_demo.
Proof. split; [exact ex_demo_wt|exact ex_demo_pure]. Qed.
Example C01_example_source_output :
  run_src 100 ex_demo =
  ODone ("elem" ++ nl ++ "[4 3]" ++ nl ++ "total=7 tag=b?" ++ nl ++ "[12 10 0]" ++ nl ++ "small" ++ nl ++ "4;3;120" ++ nl)%string.
Proof. vm_compute. reflexivity. Qed.
Example C01_example_go_output :
  run_go 200 (compile_prog ex_demo) =
  ODone ("elem" ++ nl ++ "[4 3]" ++ nl ++ "total=7 tag=b?" ++ nl ++ "[12 10 0]" ++ nl ++ "small" ++ nl ++ "4;3;120" ++ nl)%string.
Proof. vm_compute. reflexivity. Qed.
