#!/usr/bin/env python3
"""permute_dict.py <dict.go>: rewrites, in place (scratch copy only), the three enumerating functions of
pkg/dict so that they return the permutation selected by $DICT_PERM (asc | desc | rot<k> | rnd<seed>;
unset = unchanged behaviour). Fails if the file no longer has the expected shape."""
import re
import sys

path = sys.argv[1]
src = open(path).read()
n = 0
for fn in ("KVs", "Keys", "Values"):
    m = re.search(r"func %s\[[^\n]*\n(?:.*\n)*?\}\n" % fn, src)
    if not m:
        sys.exit("function %s not found in dict.go" % fn)
    body = m.group(0)
    if body.count("return res") != 1:
        sys.exit("function %s has an unexpected shape" % fn)
    src = src.replace(body, body.replace("return res", "return verifPermute(res)"))
    n += 1
src = src.replace('import "github.com/karino2/folang/pkg/frt"', 'import (\n\t"fmt"\n\t"os"\n\t"sort"\n\t"strconv"\n\n\t"github.com/karino2/folang/pkg/frt"\n)', 1)
if '"strconv"' not in src:
    sys.exit("import line of dict.go has an unexpected shape")
src += '''
// verification only (scratch copy): adversarial enumeration orders
func verifPermute[T any](xs []T) []T {
	mode := os.Getenv("DICT_PERM")
	if mode == "" || len(xs) < 2 {
		return xs
	}
	keys := make([]string, len(xs))
	idx := make([]int, len(xs))
	for i := range xs {
		keys[i] = fmt.Sprintf("%v", xs[i])
		idx[i] = i
	}
	sort.SliceStable(idx, func(a, b int) bool { return keys[idx[a]] < keys[idx[b]] })
	out := make([]T, len(xs))
	for i, j := range idx {
		out[i] = xs[j]
	}
	n := len(out)
	switch {
	case mode == "asc":
	case mode == "desc":
		for i, j := 0, n-1; i < j; i, j = i+1, j-1 {
			out[i], out[j] = out[j], out[i]
		}
	case len(mode) > 3 && mode[:3] == "rot":
		k, _ := strconv.Atoi(mode[3:])
		k %= n
		out = append(out[k:], out[:k]...)
	case len(mode) > 3 && mode[:3] == "rnd":
		s, _ := strconv.Atoi(mode[3:])
		st := uint64(s)*2654435761 + uint64(n)
		for i := n - 1; i > 0; i-- {
			st = st*6364136223846793005 + 1442695040888963407
			j := int((st >> 33) % uint64(i+1))
			out[i], out[j] = out[j], out[i]
		}
	}
	return out
}
'''
open(path, "w").write(src)
