#!/usr/bin/env python3
"""Regenerates MANIFEST.json from bin/checks.json (one entry per implemented property)."""
import json, os
V = os.path.dirname(os.path.dirname(os.path.abspath(__file__)))
conf = {}
for _f in sorted(os.listdir(os.path.join(V, "bin", "checks.d"))):
    if _f.endswith(".json"):
        conf[_f[:-5]] = json.load(open(os.path.join(V, "bin", "checks.d", _f)))
props = [json.loads(l) for l in open(os.path.join(V, "properties.jsonl"))]
checks = []
na = []
for p in props:
    pid = p["id"]
    c = conf.get(pid)
    if not c or c.get("disabled"):
        na.append({"property_id": pid, "reason": (c or {}).get("reason", "check not built yet in this session (design in DESIGN.md section 6); not claimed")})
        continue
    checks.append({
        "property_id": pid,
        "quick_cmd": "bin/check %s quick" % pid,
        "thorough_cmd": "bin/check %s thorough" % pid,
        "evidence_file": "/verif/evidence/%s.json" % pid,
        "replay_cmd_template": "bin/check %s --replay {path}" % pid,
        "engine": "rocq-proof+correspondence",
        "level_claimed": {"category": c.get("level", "proof"), "text": c["level_text"], "design_ref": "DESIGN.md section 6, " + pid},
        "level_note": c["level_note"],
        "technique": c["technique"],
    })
m = {
    "version": 1,
    "setup_cmd": "bin/setup.sh",
    "hooks": {
        "guard": "verif",
        "enable": "bin/check copies hooks/fc/zz_verif_hook.go (//go:build verif, add-only) into its scratch copy of /repo's fc/ and builds that copy with `go build -tags verif` (binary fcsrv, serving requests when FC_VERIF_SERVER=1); nothing is added to /repo itself",
        "baseline_off_cmd": "bin/baseline_off.sh",
        "source_commits": [],
        "add_only": True,
    },
    "engines": [
        {"name": "rocq-proof+correspondence", "path": "coq/ oracle/ harness/ bin/check",
         "serves_properties": [c["property_id"] for c in checks],
         "kind_free_text": "Coq 8.16.1 development (models + theorems, Props/<id>.v), model extracted to OCaml (bin/fomodel), Go harness running model and implementation (built from the current working tree) on the same generated inputs; tables regenerated from the source and re-checked by coqc"}
    ],
    "checks": checks,
    "not_applicable": na,
    "notes": "fix: commits in /repo are listed in known_findings.jsonl (status fixed). Replays are written under /verif/replays/<id>/.",
}
json.dump(m, open(os.path.join(V, "MANIFEST.json"), "w"), indent=1)
print("claimed:", [c["property_id"] for c in checks], "not claimed:", [n["property_id"] for n in na])
