#!/bin/sh
# bin/try_seeded.sh <property-id> <candidate-dir> <name> [extra check ids...]
# Confirms a seeded change in a scratch worktree of /repo (builds, test suite passes, demo fails with /
# passes without the patch), runs the property's quick check against that worktree (VERIF_REPO), and
# stores the result as /verif/seeded/<name>/ (patch.diff, demo, meta.json). /repo itself is not touched.
set -u
ID=$1; CAND=$2; NAME=$3; shift 3
export GOFLAGS=-mod=mod GOPROXY=off GOSUMDB=off GOTOOLCHAIN=local
V=$(cd "$(dirname "$0")/.." && pwd)
WT=/tmp/seedwt.$$
git -C /repo worktree add -q --detach $WT HEAD || exit 2
cleanup() { git -C /repo worktree remove --force $WT 2>/dev/null; rm -rf $WT; }
trap cleanup EXIT
if ! git -C $WT apply "$CAND/patch.diff"; then echo "RESULT $NAME: patch does not apply"; exit 3; fi
tests=ok
for m in cmd/build_sample_md fc pkg/buf pkg/dict pkg/frt pkg/slice pkg/strings pkg/sys tinyfo; do
  (cd $WT/$m && go build ./... >/dev/null 2>&1 && go test -vet=off -count=1 ./... >/tmp/seedtest.$$ 2>&1) || { tests="FAIL in $m"; cat /tmp/seedtest.$$ | tail -5; }
done
rm -f /tmp/seedtest.$$
demo_with=skip; demo_without=skip
if [ -f "$CAND/demo.sh" ]; then
  (cd "$CAND" && timeout 600 sh ./demo.sh $WT >/tmp/seeddemo.$$ 2>&1); demo_with=$?
  (cd "$CAND" && timeout 600 sh ./demo.sh /repo >/tmp/seeddemo2.$$ 2>&1); demo_without=$?
  rm -f /tmp/seeddemo.$$ /tmp/seeddemo2.$$
fi
echo "confirm $NAME: tests=$tests demo_with_patch_exit=$demo_with demo_without_patch_exit=$demo_without"
results=""
for chk in $ID "$@"; do
  out=$(cd $V && VERIF_REPO=$WT bin/check $chk quick 2>&1)
  rc=$?
  nviol=$(echo "$out" | grep -c '^VIOLATION')
  first=$(echo "$out" | grep -A1 '^VIOLATION' | head -2 | tr '\n' ' ' | cut -c1-400)
  echo "check $chk on $NAME: exit=$rc violations=$nviol $first"
  results="$results{\"check\":\"$chk\",\"exit\":$rc,\"violation_lines\":$nviol,\"first\":$(python3 -c 'import json,sys; print(json.dumps(sys.argv[1]))' "$first")},"
done
mkdir -p $V/seeded/$NAME
cp -r "$CAND"/. $V/seeded/$NAME/
python3 - "$V/seeded/$NAME/meta.json" "$ID" "$NAME" "$tests" "$demo_with" "$demo_without" "[${results%,}]" <<'PY'
import json,sys,os
path,pid,name,tests,dw,dwo,res=sys.argv[1:8]
notes=""
np=os.path.join(os.path.dirname(path),"notes.md")
if os.path.exists(np): notes=open(np).read()[:3000]
json.dump({"property":pid,"name":name,"needs_to_manifest":"see notes.md","test_suite_with_patch":tests,
  "demo_exit_with_patch":dw,"demo_exit_without_patch":dwo,
  "what_was_run":"scratch worktree of /repo HEAD + patch: go build + go test of all modules; demo.sh on the patched worktree and on /repo; VERIF_REPO=<worktree> bin/check <id> quick",
  "checks":json.loads(res),"notes_excerpt":notes},open(path,"w"),indent=1)
PY
