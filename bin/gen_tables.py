#!/usr/bin/env python3
"""gen_tables.py <table> <tree> <outdir>: way 1 of the tie — re-extracts a table / inventory from the
current source into <outdir>/<table>.v, ending with lemmas that equate it with the table the theorems
are about. A changed table makes coqc fail on the lemma = a broken proof obligation."""
import os
import re
import sys


def coq_str(s):
    return '"' + s.replace('"', '""') + '"'


def binop_table(tree):
    src = open(os.path.join(tree, "fc", "wrapper.go")).read()
    m = re.search(r"var binOpMap = map\[TokenType\]BinOpInfo\{(.*?)\n\}", src, re.S)
    if not m:
        raise SystemExit("binOpMap not found in fc/wrapper.go")
    rows = []
    for line in m.group(1).splitlines():
        line = line.split("//")[0].strip()
        if not line:
            continue
        mm = re.match(r'New_TokenType_(\w+):\s*\{\s*(\d+)\s*,\s*"([^"]*)"\s*,\s*(true|false)\s*\},?$', line)
        if not mm:
            raise SystemExit("unrecognised binOpMap row: " + line)
        rows.append((mm.group(1), int(mm.group(2)), mm.group(3), mm.group(4)))
    out = ["(* generated from fc/wrapper.go binOpMap by bin/gen_tables.py; do not edit *)",
           "From Coq Require Import List String Bool Arith.",
           "From FoVerif Require Import Front.BinOp.",
           "Import ListNotations.",
           "Open Scope string_scope.",
           "Definition extracted_table : list (optok * nat * string * bool) :=",
           "  [" + ";\n   ".join("(%s, %d, %s, %s)" % (t, p, coq_str(g), b) for (t, p, g, b) in rows) + "].",
           "Definition row_ok (e : optok * nat * string * bool) : bool :=",
           "  match e with (o, p, g, _) => Nat.eqb (rank o) p && String.eqb (go_name o) g end.",
           "Lemma table_rows_are_published : forallb row_ok extracted_table = true.",
           "Proof. vm_compute. reflexivity. Qed.",
           "Lemma table_is_complete : forallb (fun o => Nat.eqb (List.length (filter (fun e => optok_eqb (fst (fst (fst e))) o) extracted_table)) 1) all_ops = true.",
           "Proof. vm_compute. reflexivity. Qed.",
           "Lemma table_has_no_other_operator : List.length extracted_table = List.length all_ops.",
           "Proof. vm_compute. reflexivity. Qed.",
           ""]
    return "\n".join(out)


TABLES = {"BinOpTable": binop_table}

if __name__ == "__main__":
    name, tree, outdir = sys.argv[1:4]
    if name not in TABLES:
        raise SystemExit("unknown table " + name)
    open(os.path.join(outdir, name + ".v"), "w").write(TABLES[name](tree))
