#!/usr/bin/env python3
"""gen_tables.py <table> <tree> <outdir>: way 1 of the tie — re-extracts a table / inventory from the
current source into <outdir>/<table>.v, ending with lemmas that equate it with the table the theorems
are about. A changed table makes coqc fail on the lemma = a broken proof obligation."""
import os
import re
import sys


def coq_str(s):
    return '"' + s.replace('"', '""') + '"'


def binop_table(tree):
    src = open(os.path.join(tree, "fc", "wrapper.go")).read()
    m = re.search(r"var binOpMap = map\[TokenType\]BinOpInfo\{(.*?)\n\}", src, re.S)
    if not m:
        raise SystemExit("binOpMap not found in fc/wrapper.go")
    rows = []
    for line in m.group(1).splitlines():
        line = line.split("//")[0].strip()
        if not line:
            continue
        mm = re.match(r'New_TokenType_(\w+):\s*\{\s*(\d+)\s*,\s*"([^"]*)"\s*,\s*(true|false)\s*\},?$', line)
        if not mm:
            raise SystemExit("unrecognised binOpMap row: " + line)
        rows.append((mm.group(1), int(mm.group(2)), mm.group(3), mm.group(4)))
    out = ["(* generated from fc/wrapper.go binOpMap by bin/gen_tables.py; do not edit *)",
           "From Coq Require Import List String Bool Arith.",
           "From FoVerif Require Import Front.BinOp.",
           "Import ListNotations.",
           "Open Scope string_scope.",
           "Definition extracted_table : list (optok * nat * string * bool) :=",
           "  [" + ";\n   ".join("(%s, %d, %s, %s)" % (t, p, coq_str(g), b) for (t, p, g, b) in rows) + "].",
           "Definition row_ok (e : optok * nat * string * bool) : bool :=",
           "  match e with (o, p, g, _) => Nat.eqb (rank o) p && String.eqb (go_name o) g end.",
           "Lemma table_rows_are_published : forallb row_ok extracted_table = true.",
           "Proof. vm_compute. reflexivity. Qed.",
           "Lemma table_is_complete : forallb (fun o => Nat.eqb (List.length (filter (fun e => optok_eqb (fst (fst (fst e))) o) extracted_table)) 1) all_ops = true.",
           "Proof. vm_compute. reflexivity. Qed.",
           "Lemma table_has_no_other_operator : List.length extracted_table = List.length all_ops.",
           "Proof. vm_compute. reflexivity. Qed.",
           ""]
    return "\n".join(out)


def dict_sites(tree):
    """every call site of dict.Keys/Values/KVs in fc/*.fo as file:function:enumerator, and every other
    source of run-to-run variation in the hand-written Go of fc (range over a map, time, rand, %p)"""
    import glob
    sites = []
    for f in sorted(glob.glob(os.path.join(tree, "fc", "*.fo"))):
        cur = "?"
        in_block = False
        for line in open(f, errors="replace"):
            code = line
            if in_block:
                if "*/" in code:
                    code = code.split("*/", 1)[1]
                    in_block = False
                else:
                    continue
            if "/*" in code and "*/" not in code.split("/*", 1)[1]:
                code = code.split("/*", 1)[0]
                in_block = True
            code = code.split("//")[0]
            m = re.match(r"let\s+(\w+)", code)
            if m:
                cur = m.group(1)
            for e in re.findall(r"dict\.(Keys|Values|KVs)\b", code):
                s = "%s:%s:%s" % (os.path.basename(f), cur, e)
                if s not in sites:
                    sites.append(s)
    other = []
    for f in sorted(glob.glob(os.path.join(tree, "fc", "*.go"))):
        b = os.path.basename(f)
        if b.startswith("gen_") or b.endswith("_test.go") or b.startswith("zz_verif"):
            continue
        src = open(f, errors="replace").read()
        for m in re.finditer(r"range\s+([A-Za-z_][\w.]*)", src):
            name = m.group(1)
            if re.search(r"\b%s\s*(=|:=)\s*map\[" % re.escape(name.split(".")[-1]), src) or name.endswith("Fdict") or name.endswith("Map"):
                other.append("%s:range-over-map:%s" % (b, name))
        for pat in (r"\btime\.", r"\brand\.", r"%p"):
            if re.search(pat, src):
                other.append("%s:uses:%s" % (b, pat))
    for f in sorted(glob.glob(os.path.join(tree, "fc", "*.fo"))):
        src = open(f, errors="replace").read()
        for pat in (r"\btime\.", r"\brand\.", r"%p"):
            if re.search(pat, src):
                other.append("%s:uses:%s" % (os.path.basename(f), pat))
    out = ["(* generated from fc/*.fo and fc/*.go by bin/gen_tables.py; do not edit *)",
           "From Coq Require Import List String Bool.",
           "From FoVerif Require Import Driver.Order.",
           "Import ListNotations.",
           "Open Scope string_scope.",
           "Definition extracted_sites : list string :=",
           "  [" + ";\n   ".join(coq_str(s) for s in sites) + "].",
           "Definition other_order_sources : list string :=",
           "  [" + ";\n   ".join(coq_str(s) for s in other) + "].",
           "Lemma every_site_is_modelled :",
           "  forallb (fun s => existsb (String.eqb s) modelled_sites) extracted_sites = true.",
           "Proof. vm_compute. reflexivity. Qed.",
           "Lemma every_modelled_site_exists :",
           "  forallb (fun s => existsb (String.eqb s) extracted_sites) modelled_sites = true.",
           "Proof. vm_compute. reflexivity. Qed.",
           "Lemma no_other_order_source : other_order_sources = [].",
           "Proof. reflexivity. Qed.",
           ""]
    return "\n".join(out)


TABLES = {"BinOpTable": binop_table, "DictSites": dict_sites}

if __name__ == "__main__":
    name, tree, outdir = sys.argv[1:4]
    if name not in TABLES:
        raise SystemExit("unknown table " + name)
    open(os.path.join(outdir, name + ".v"), "w").write(TABLES[name](tree))
