#!/bin/sh
# MANIFEST.setup_cmd: builds the framework from files on disk only (offline).
set -e
cd "$(dirname "$0")/.."
export GOFLAGS=-mod=mod GOPROXY=off GOSUMDB=off GOTOOLCHAIN=local
# forbidden constructs
if grep -rnE '\b(Admitted|admit|Axiom|Parameter|Conjecture|bypass_check)\b|Unset Guard|Admit Obligations' coq --include='*.v' | grep -v '^\S*:[0-9]*:\s*(\*' ; then
  echo "forbidden construct in the Coq development" >&2; exit 1
fi
cd coq
./mk_coqproject.sh
coq_makefile -f _CoqProject -o Makefile > /dev/null
timeout 3000 make -j16
cd ..
sh oracle/build.sh
echo setup ok
