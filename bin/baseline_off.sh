#!/bin/sh
# Runs the repository's pinned test suite with the verif guard OFF (no build tag).
export GOFLAGS=-mod=mod GOPROXY=off GOSUMDB=off GOTOOLCHAIN=local
rc=0
for m in cmd/build_sample_md fc pkg/buf pkg/dict pkg/frt pkg/slice pkg/strings pkg/sys tinyfo; do
  (cd /repo/$m && go test -vet=off -count=1 -timeout 25m ./...) || rc=1
done
exit $rc
