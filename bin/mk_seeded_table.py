#!/usr/bin/env python3
# Regenerates the table of seeded changes (DESIGN.md section 9.4 between the markers, seeded/README.md)
# from seeded/*/meta.json.
import json, os, re, sys
V = os.path.dirname(os.path.dirname(os.path.abspath(__file__)))
NEEDS = json.load(open(os.path.join(V, "seeded", "needs.json")))
rows = []
stats = {}
for n in sorted(os.listdir(os.path.join(V, "seeded"))):
    mp = os.path.join(V, "seeded", n, "meta.json")
    if not os.path.exists(mp):
        continue
    d = json.load(open(mp))
    needs = d.get("needs_to_manifest", "")
    if not needs or needs.startswith("see notes"):
        needs = NEEDS.get(n, "see seeded/%s/notes.md" % n)
    def fmt(cs):
        out = []
        for c in cs or []:
            e = c.get("exit")
            if e == 1:
                w = "VIOLATION"
                if "no-failing-input-found" in (c.get("first") or ""):
                    w = "VIOLATION (no-failing-input-found)"
            elif e == 0:
                w = "passes"
            else:
                w = str(e)
            out.append("%s: %s" % (c["check"], w))
        return "; ".join(out)
    final = fmt(d.get("checks"))
    rnd = d.get("round") or NEEDS.get("_round", {}).get(n, 1)
    first = fmt(d.get("first_pass_checks")) or ("not recorded per change (24 of 54 caught, see text)" if rnd == 1 else "= final")
    rows.append("| `%s` | %s | %s | %s | %s |" % (n, rnd, needs.replace("|", "\\|"), first, final))
    own = d["property"]
    def caught(cs, concrete):
        for c in cs or []:
            if c["check"] == own and c.get("exit") == 1 and not (concrete and "no-failing-input-found" in (c.get("first") or "")):
                return True
        return False
    s = stats.setdefault(rnd, {"n": 0, "first_own": 0, "final_own": 0, "final_any": 0})
    s["n"] += 1
    fp = d.get("first_pass_checks") or d.get("checks")
    s["first_own"] += caught(fp, True) if rnd != 1 else 0
    s["final_own"] += caught(d.get("checks"), True)
    s["final_any"] += any(c.get("exit") == 1 for c in d.get("checks") or [])
table = "| seeded change | round | what it needs to manifest | first pass | final evaluation |\n|---|---|---|---|---|\n" + "\n".join(rows) + "\n"
summary = "\n".join("* round %s: %d changes; caught by the property's own check with a concrete failing input: %s at the first pass, %d after strengthening; by any check: %d" %
                    (r, s["n"], "24" if r == 1 else s["first_own"], s["final_own"], s["final_any"]) for r, s in sorted(stats.items(), key=lambda kv: str(kv[0])))
open(os.path.join(V, "seeded", "README.md"), "w").write(
    "# Seeded changes\n\nEach directory: `patch.diff` (against /repo at the time), the sub-agent's demonstration, `notes.md`, `meta.json` "
    "(what was run, first-pass and final outcome of the checks). None of these is ever committed to /repo.\n"
    "Re-run one: `bin/try_seeded.sh <property> seeded/<name> <name> [other checks]`.\n\n" + summary + "\n\n" + table)
dp = os.path.join(V, "DESIGN.md")
s = open(dp).read()
a, b = "<!-- seeded-table-begin -->", "<!-- seeded-table-end -->"
if a in s:
    s = s[:s.index(a) + len(a)] + "\n" + summary + "\n\n" + table + s[s.index(b):]
    open(dp, "w").write(s)
print(summary)
