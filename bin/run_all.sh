#!/bin/sh
# runs every claimed check of the given tier sequentially and prints one summary line each
cd "$(dirname "$0")/.."
TIER=${1:-quick}
for f in bin/checks.d/*.json; do
  id=$(basename $f .json)
  out=$(bin/check $id $TIER 2>&1); rc=$?
  echo "$id exit=$rc $(echo "$out" | grep -c '^VIOLATION') violations, $(echo "$out" | grep -c '^KNOWN-FINDING') known | $(echo "$out" | tail -1 | cut -c1-160)"
  echo "$out" | grep '^VIOLATION' -A1 | head -6
done
