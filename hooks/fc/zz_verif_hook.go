//go:build verif

// Verification hook (add-only, guarded by the build tag "verif"; never committed to /repo: bin/check
// copies it into its scratch copy of fc/). When FC_VERIF_SERVER=1 the binary serves a line protocol
// on stdin/stdout instead of running main: one JSON request per line, one JSON response per line.
// Without the variable (or without the tag) nothing here runs.
package main

import (
	"bufio"
	"encoding/hex"
	"encoding/json"
	"fmt"
	"os"
	"path/filepath"
	"strings"

	"github.com/karino2/folang/pkg/dict"
	"github.com/karino2/folang/pkg/frt"
)

type vhFile struct {
	Name   string `json:"name"`
	SrcHex string `json:"src_hex"`
}

type vhReq struct {
	Op     string   `json:"op"`
	Files  []vhFile `json:"files,omitempty"`
	BufHex string   `json:"buf_hex,omitempty"`
	Pos    int      `json:"pos,omitempty"`
	Rels   []vhRel  `json:"rels,omitempty"` // op resolve: relations fed to updateResolver
	Ty     string   `json:"ty,omitempty"`   // op resolve: the type to resolve
}

// a type in prefix notation: int | str | bool | v:<name> | sl <t> | tu:<n> <t>... | fn:<n> <t>...
type vhRel struct {
	V string `json:"v"`
	T string `json:"t"`
}

type vhTok struct {
	Type  string `json:"t"`
	Begin int    `json:"b"`
	Len   int    `json:"l"`
	Col   int    `json:"c"`
	Str   string `json:"s_hex,omitempty"`
	Int   int    `json:"i,omitempty"`
}

type vhResp struct {
	Ok     bool              `json:"ok"`
	Err    string            `json:"err,omitempty"`
	ErrAt  string            `json:"err_file,omitempty"`
	Outs   map[string]string `json:"outs_hex,omitempty"` // gen file name -> content
	Toks   []vhTok           `json:"toks,omitempty"`
	Fmt    string            `json:"fmt_hex,omitempty"`
	Vars   []string          `json:"vars,omitempty"`
	VarsH  []string          `json:"vars_hex,omitempty"` // the same, byte-exact (JSON strings mangle invalid UTF-8)
	BinOps map[string][]any  `json:"binops,omitempty"`
	KeyWds map[string]string `json:"keywords,omitempty"`
}

func vhResetGlobals() {
	uniqueId = 0
	g_recInfoDic = dict.New[string, RecordTypeInfo]()
	g_uniInfoDic = dict.New[string, UnionTypeInfo]()
}

// mirrors transpileFiles/transpileOne of main.fo without file I/O and os.Exit
func vhTranspile(files []vhFile) (resp vhResp) {
	vhResetGlobals()
	resp.Outs = map[string]string{}
	cur := ""
	defer func() {
		if r := recover(); r != nil {
			resp.Ok = false
			resp.Err = fmt.Sprintf("%s", r)
			resp.ErrAt = cur
		}
	}()
	parser := initParse("")
	for _, f := range files {
		cur = f.Name
		src, err := hex.DecodeString(f.SrcHex)
		if err != nil {
			panic(err)
		}
		ps2, stmts := frt.Destr2(ParseAll(psSetNewSrc(string(src), parser)))
		res := RootStmtsToGo(stmts)
		if strings.HasSuffix(f.Name, ".fo") {
			base := strings.TrimSuffix(filepath.Base(f.Name), ".fo")
			resp.Outs["gen_"+base+".go"] = hex.EncodeToString([]byte(res))
		}
		parser = ps2
	}
	resp.Ok = true
	return
}

func vhTokens(buf string) (resp vhResp) {
	defer func() {
		if r := recover(); r != nil {
			resp.Ok = false
			resp.Err = fmt.Sprintf("%v", r)
		}
	}()
	tkz := newTkz(buf)
	for i := 0; i < len(buf)+2; i++ {
		t := tkz.current
		resp.Toks = append(resp.Toks, vhTok{Type: fmt.Sprintf("%v", t.ttype), Begin: t.begin, Len: t.len, Col: tkz.col,
			Str: hex.EncodeToString([]byte(t.stringVal)), Int: t.intVal})
		if fmt.Sprintf("%v", t.ttype) == "(EOF)" {
			break
		}
		tkz = tkzNext(tkz)
	}
	resp.Ok = true
	return
}

func vhScan(buf string, pos int) (resp vhResp) {
	defer func() {
		if r := recover(); r != nil {
			resp.Ok = false
			resp.Err = fmt.Sprintf("%v", r)
		}
	}()
	t := scanTokenAt(buf, pos)
	resp.Toks = []vhTok{{Type: fmt.Sprintf("%v", t.ttype), Begin: t.begin, Len: t.len, Str: hex.EncodeToString([]byte(t.stringVal)), Int: t.intVal}}
	resp.Ok = true
	return
}

func vhSInterP(buf string) (resp vhResp) {
	defer func() {
		if r := recover(); r != nil {
			resp.Ok = false
			resp.Err = fmt.Sprintf("%v", r)
		}
	}()
	f, vs := frt.Destr2(ParseSInterP(buf))
	resp.Fmt = hex.EncodeToString([]byte(f))
	resp.Vars = vs
	if resp.Vars == nil {
		resp.Vars = []string{}
	}
	for _, v := range vs {
		resp.VarsH = append(resp.VarsH, hex.EncodeToString([]byte(v)))
	}
	resp.Ok = true
	return
}

func vhReinterp(buf string) (resp vhResp) {
	defer func() {
		if r := recover(); r != nil {
			resp.Ok = false
			resp.Err = fmt.Sprintf("%v", r)
		}
	}()
	resp.Fmt = hex.EncodeToString([]byte(reinterpretEscape(buf)))
	resp.Ok = true
	return
}

func vhParseTy(toks []string) (FType, []string) {
	if len(toks) == 0 {
		panic("vhParseTy: truncated type")
	}
	t, rest := toks[0], toks[1:]
	list := func(n int) []FType {
		var ts []FType
		for i := 0; i < n; i++ {
			var e FType
			e, rest = vhParseTy(rest)
			ts = append(ts, e)
		}
		return ts
	}
	switch {
	case t == "int":
		return New_FType_FInt, rest
	case t == "str":
		return New_FType_FString, rest
	case t == "bool":
		return New_FType_FBool, rest
	case strings.HasPrefix(t, "v:"):
		return New_FType_FTypeVar(TypeVar{Name: t[2:]}), rest
	case t == "sl":
		e := list(1)
		return New_FType_FSlice(SliceType{ElemType: e[0]}), rest
	case strings.HasPrefix(t, "tu:"):
		var n int
		fmt.Sscan(t[3:], &n)
		return New_FType_FTuple(TupleType{ElemTypes: list(n)}), rest
	case strings.HasPrefix(t, "fn:"):
		var n int
		fmt.Sscan(t[3:], &n)
		return newFFunc(list(n)), rest
	case strings.HasPrefix(t, "rc:"):
		// rc:NAME:n  a generic record NAME<t1..tn> (one field per type argument; registered so that
		// transRecType finds its info)
		parts := strings.Split(t, ":")
		var n int
		fmt.Sscan(parts[2], &n)
		targs := list(n)
		rt := RecordType{Name: parts[1], Targs: targs}
		var fields []NameTypePair
		for i, a := range targs {
			fields = append(fields, NameTypePair{Name: fmt.Sprintf("F%d", i), Ftype: a})
		}
		updateRecInfo(rt, RecordTypeInfo{Fields: fields})
		return New_FType_FRecord(rt), rest
	}
	panic("vhParseTy: unknown token " + t)
}

func vhShowTy(t FType) string {
	many := func(ts []FType) string {
		var b strings.Builder
		for _, e := range ts {
			b.WriteString(" " + vhShowTy(e))
		}
		return b.String()
	}
	switch v := t.(type) {
	case FType_FInt:
		return "int"
	case FType_FString:
		return "str"
	case FType_FBool:
		return "bool"
	case FType_FTypeVar:
		return "v:" + v.Value.Name
	case FType_FSlice:
		return "sl " + vhShowTy(v.Value.ElemType)
	case FType_FTuple:
		return fmt.Sprintf("tu:%d", len(v.Value.ElemTypes)) + many(v.Value.ElemTypes)
	case FType_FFunc:
		return fmt.Sprintf("fn:%d", len(v.Value.Targets)) + many(v.Value.Targets)
	case FType_FRecord:
		return fmt.Sprintf("rc:%s:%d", v.Value.Name, len(v.Value.Targs)) + many(v.Value.Targs)
	}
	return fmt.Sprintf("?%v", t)
}

// updateResolver on a fresh resolver with the given relations, then resolveType; the result is in Err when it panics
// (the cyclic-type diagnostic) and in Fmt (prefix notation, hex) otherwise.
func vhResolve(rels []vhRel, ty string) (resp vhResp) {
	defer func() {
		if r := recover(); r != nil {
			resp.Ok = false
			resp.Err = fmt.Sprintf("%v", r)
		}
	}()
	var urs []UniRel
	for _, r := range rels {
		t, _ := vhParseTy(strings.Fields(r.T))
		urs = append(urs, UniRel{SrcV: r.V, Dest: t})
	}
	rsv := updateResolver(newResolver(), urs)
	t, _ := vhParseTy(strings.Fields(ty))
	resp.Fmt = hex.EncodeToString([]byte(vhShowTy(resolveType(rsv, t))))
	resp.Ok = true
	return
}

func vhTables() (resp vhResp) {
	resp.BinOps = map[string][]any{}
	for tt, bi := range binOpMap {
		resp.BinOps[fmt.Sprintf("%v", tt)] = []any{bi.Precedence, bi.GoFuncName, bi.IsBoolOp}
	}
	resp.KeyWds = map[string]string{}
	for k, tt := range keywordMap {
		resp.KeyWds[k] = fmt.Sprintf("%v", tt)
	}
	resp.Ok = true
	return
}

func init() {
	if os.Getenv("FC_VERIF_SERVER") != "1" {
		return
	}
	done := make(chan bool)
	go func() { vhServe(); done <- true }()
	<-done
	os.Exit(0)
}

func vhServe() {
	in := bufio.NewReaderSize(os.Stdin, 1<<20)
	out := bufio.NewWriter(os.Stdout)
	for {
		line, err := in.ReadString('\n')
		if len(line) > 0 {
			var req vhReq
			var resp vhResp
			if e := json.Unmarshal([]byte(line), &req); e != nil {
				resp.Err = "bad request: " + e.Error()
			} else {
				buf, _ := hex.DecodeString(req.BufHex)
				switch req.Op {
				case "transpile":
					resp = vhTranspile(req.Files)
				case "tokens":
					resp = vhTokens(string(buf))
				case "scan":
					resp = vhScan(string(buf), req.Pos)
				case "sinterp":
					resp = vhSInterP(string(buf))
				case "reinterp":
					resp = vhReinterp(string(buf))
				case "resolve":
					resp = vhResolve(req.Rels, req.Ty)
				case "tables":
					resp = vhTables()
				default:
					resp.Err = "unknown op"
				}
			}
			b, _ := json.Marshal(resp)
			out.Write(b)
			out.WriteByte('\n')
			out.Flush()
		}
		if err != nil {
			break
		}
	}
}
